"""Replay of one enumerated path with the symbolic evaluator: local bindings,
facts established by the tests, and the facts valid *before* each event."""
from __future__ import annotations

import ast
from typing import Any, Dict, List, Optional, Tuple

from .model import Program, FuncInfo, norm
from .paths import Path, Ev
from .symx import Sym, Lin, Fact


def sum_loop_idiom(st: ast.For) -> Optional[Tuple[str, ast.expr]]:
    """``for x in S: acc += x``  ->  (acc, S)"""
    if isinstance(st, ast.For) and isinstance(st.target, ast.Name) and len(st.body) == 1 and not st.orelse:
        b = st.body[0]
        if isinstance(b, ast.AugAssign) and isinstance(b.op, ast.Add) and isinstance(b.target, ast.Name) \
                and isinstance(b.value, ast.Name) and b.value.id == st.target.id:
            return b.target.id, st.iter
    return None


def target_key(t: ast.expr) -> Optional[str]:
    if isinstance(t, ast.Name):
        return t.id
    if isinstance(t, ast.Attribute) and isinstance(t.value, ast.Name):
        return "%s.%s" % (t.value.id, t.attr)
    return None


class Replay:
    def __init__(self, prog: Program, fn: FuncInfo, path: Path, sym: Optional[Sym] = None):
        self.prog, self.fn, self.path = prog, fn, path
        self.sym = sym or Sym.for_function(prog, fn)
        self.facts: List[Fact] = []
        self.nfacts_before: List[int] = []      # per event index
        self.env_before: List[Dict[str, Any]] = []
        self.atom_facts: Dict[int, List[Fact]] = {}  # event index -> facts that test established
        self._run()

    def _run(self):
        sym = self.sym
        in_sum_loop: Optional[ast.For] = None
        loop_iters: Dict[int, Any] = {}
        for i, ev in enumerate(self.path.events):
            self.nfacts_before.append(len(self.facts))
            self.env_before.append(dict(sym.env))
            if ev.kind == "iter":
                idiom = sum_loop_idiom(ev.node)
                if idiom is not None:
                    acc, it = idiom
                    if id(ev.node) not in loop_iters:
                        base = sym.env.get(acc, Lin.of_term(("var", acc)))
                        base = base if isinstance(base, Lin) else Lin.of_term(base)
                        loop_iters[id(ev.node)] = base + Lin.of_term(("call", "sum", (sym.term(it),)))
                    if isinstance(ev.data, str):   # exit
                        sym.bind(acc, loop_iters[id(ev.node)])
                        in_sum_loop = None
                    else:
                        in_sum_loop = ev.node
                continue
            if ev.kind == "stmt":
                st = ev.node
                if in_sum_loop is not None and st is in_sum_loop.body[0]:
                    continue
                if isinstance(st, ast.Assign):
                    for t in st.targets:
                        self._store(t, st.value)
                elif isinstance(st, ast.AnnAssign) and st.value is not None:
                    self._store(st.target, st.value)
                elif isinstance(st, ast.AugAssign):
                    k = target_key(st.target)
                    if k is not None:
                        cur = sym.lin(st.target)
                        v = sym.lin(st.value)
                        if isinstance(st.op, ast.Add):
                            sym.bind(k, cur + v)
                        elif isinstance(st.op, ast.Sub):
                            sym.bind(k, cur - v)
                        else:
                            sym.bind(k, Lin.of_term(("call", type(st.op).__name__, (sym.term(st.target), sym.term(st.value)))))
            elif ev.kind == "test":
                fs = sym.facts_of(ev.node, ev.data)
                self.atom_facts[i] = fs
                self.facts.extend(fs)
            elif ev.kind == "catch":
                if ev.node.name:
                    sym.bind(ev.node.name, Lin.of_term(("exc", Program.exc_name(ev.data), ev.node.name)))
        self.nfacts_before.append(len(self.facts))
        self.env_before.append(dict(sym.env))

    def _store(self, target: ast.expr, value: ast.expr):
        k = target_key(target)
        if k is not None:
            self.sym.bind(k, self.sym.lin(value))
        elif isinstance(target, (ast.Tuple, ast.List)):
            for e in target.elts:
                kk = target_key(e)
                if kk is not None:
                    self.sym.bind(kk, Lin.of_term(("unpacked", norm(value), kk)))

    def facts_before(self, i: int) -> List[Fact]:
        return self.facts[: self.nfacts_before[i]]

    def sym_at(self, i: int) -> Sym:
        s = self.sym.copy()
        s.env = dict(self.env_before[i])
        return s
