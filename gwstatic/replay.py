"""Replay of one enumerated path with the symbolic evaluator: local bindings,
facts established by the tests, and the facts valid *before* each event."""
from __future__ import annotations

import ast
from typing import Any, Dict, List, Optional, Tuple

from .model import Program, FuncInfo, norm
from .paths import Path, Ev
from .symx import Sym, Lin, Fact


def sum_loop_idiom(st: ast.For) -> Optional[Tuple[str, ast.expr]]:
    """``for x in S: acc += x``  ->  (acc, S)"""
    if isinstance(st, ast.For) and isinstance(st.target, ast.Name) and len(st.body) == 1 and not st.orelse:
        b = st.body[0]
        if isinstance(b, ast.AugAssign) and isinstance(b.op, ast.Add) and isinstance(b.target, ast.Name) \
                and isinstance(b.value, ast.Name) and b.value.id == st.target.id:
            return b.target.id, st.iter
    return None


def target_key(t: ast.expr) -> Optional[str]:
    if isinstance(t, ast.Name):
        return t.id
    if isinstance(t, ast.Attribute) and isinstance(t.value, ast.Name):
        return "%s.%s" % (t.value.id, t.attr)
    return None


class Replay:
    def __init__(self, prog: Program, fn: FuncInfo, path: Path, sym: Optional[Sym] = None):
        self.prog, self.fn, self.path = prog, fn, path
        self.sym = sym or Sym.for_function(prog, fn)
        if self.sym.inline is None:
            self.sym.inline = make_inliner(prog, fn)
        self.facts: List[Fact] = []
        self.nfacts_before: List[int] = []      # per event index
        self.env_before: List[Dict[str, Any]] = []
        self.atom_facts: Dict[int, List[Fact]] = {}  # event index -> facts that test established
        self._run()

    def _run(self):
        sym = self.sym
        in_sum_loop: Optional[ast.For] = None
        loop_iters: Dict[int, Any] = {}
        frames: List[Tuple] = []     # (function, saved local env, scope, returned value) per inlined helper
        cur_fn = self.fn
        for i, ev in enumerate(self.path.events):
            self.nfacts_before.append(len(self.facts))
            self.env_before.append(dict(sym.env))
            if ev.kind in ("test", "stmt", "call") and ev.node is not None:
                # (x := expr): the name is bound where the expression is evaluated
                for ne in [x for x in ast.walk(ev.node) if isinstance(x, ast.NamedExpr)] if ev.kind != "call" else []:
                    if isinstance(ne.target, ast.Name):
                        sym.bind(ne.target.id, sym.lin(ne.value))
            if ev.kind == "enter":
                g, call = ev.data, ev.node
                bound_self = bool(g.cls is not None and not g.is_static and g.params and g.params[0] in ("self", "cls"))
                same_self = bound_self and isinstance(call.func, ast.Attribute) and isinstance(call.func.value, ast.Name) \
                    and call.func.value.id in ("self", "cls")
                # the caller's bindings stay visible for names the helper does not bind itself: simple arguments are
                # substituted into the helper's body (paths._callee_body) and still mean the caller's objects there
                own = set(g.params) | {n.id for n in ast.walk(g.node) if isinstance(n, ast.Name) and isinstance(n.ctx, (ast.Store, ast.Del))}
                new_env: Dict[str, Any] = {k: v for k, v in sym.env.items() if "." not in k and k not in own}
                if same_self:
                    new_env.update({k: v for k, v in sym.env.items() if k.startswith("self.") or k.startswith("cls.")})
                from .calls import arg_for
                for pn in g.params:
                    if bound_self and pn == g.params[0]:
                        continue
                    a = arg_for(call, g, pn)
                    if a is None:
                        a = _default_of(g, pn)
                    if a is not None:
                        new_env[pn] = sym.lin(a)
                frames.append((cur_fn, {k: v for k, v in sym.env.items()}, sym.scope, same_self, sym.noscope))
                sym.env = new_env
                sym.scope = "%s#%d:" % (g.name, len(frames))
                sym.noscope = {"self", "cls"} if same_self else set()
                sym.set_function(g)
                cur_fn = g
                continue
            if ev.kind == "iret":
                if ev.node.value is not None:
                    sym.call_values[("ret", len(frames))] = sym.lin(ev.node.value)
                continue
            if ev.kind == "exit":
                if frames:
                    outer_fn, outer_env, outer_scope, same_self, outer_noscope = frames.pop()
                    sym.noscope = outer_noscope
                    ret = sym.call_values.pop(("ret", len(frames) + 1), None)
                    updates = {k: v for k, v in sym.env.items() if same_self and (k.startswith("self.") or k.startswith("cls."))}
                    sym.env = outer_env
                    sym.env.update(updates)
                    sym.scope = outer_scope
                    sym.set_function(outer_fn)
                    cur_fn = outer_fn
                    if ret is not None:
                        sym.call_values[id(ev.node)] = ret
                continue
            if ev.kind == "iter":
                lp = ev.node
                lit = lp.iter
                if isinstance(lit, ast.Name):
                    from .astutil import single_assignments
                    lit = single_assignments(cur_fn.node).get(lit.id) if not cur_fn.is_lambda else None
                if isinstance(ev.data, int) and isinstance(lit, (ast.Tuple, ast.List)) and ev.data < len(lit.elts):
                    # for x in (a, b, c): the loop variable is the element of this iteration
                    el = lit.elts[ev.data]
                    if isinstance(lp.target, ast.Name):
                        sym.bind(lp.target.id, sym.lin(el))
                    elif isinstance(lp.target, (ast.Tuple, ast.List)) and isinstance(el, (ast.Tuple, ast.List)) and len(el.elts) == len(lp.target.elts):
                        for t_, e_ in zip(lp.target.elts, el.elts):
                            if isinstance(t_, ast.Name):
                                sym.bind(t_.id, sym.lin(e_))
                idiom = sum_loop_idiom(ev.node)
                if idiom is not None:
                    acc, it = idiom
                    if id(ev.node) not in loop_iters:
                        base = sym.env.get(acc, Lin.of_term(("var", acc)))
                        base = base if isinstance(base, Lin) else Lin.of_term(base)
                        loop_iters[id(ev.node)] = base + Lin.of_term(("call", "sum", (sym.term(it),)))
                    if isinstance(ev.data, str):   # exit
                        sym.bind(acc, loop_iters[id(ev.node)])
                        in_sum_loop = None
                    else:
                        in_sum_loop = ev.node
                continue
            if ev.kind == "stmt":
                st = ev.node
                if in_sum_loop is not None and st is in_sum_loop.body[0]:
                    continue
                if isinstance(st, ast.Assign):
                    for t in st.targets:
                        self._store(t, st.value)
                elif isinstance(st, ast.AnnAssign) and st.value is not None:
                    self._store(st.target, st.value)
                elif isinstance(st, ast.AugAssign):
                    k = target_key(st.target)
                    if k is not None:
                        cur = sym.lin(st.target)
                        v = sym.lin(st.value)
                        if isinstance(st.op, ast.Add):
                            sym.bind(k, cur + v)
                        elif isinstance(st.op, ast.Sub):
                            sym.bind(k, cur - v)
                        else:
                            sym.bind(k, Lin.of_term(("call", type(st.op).__name__, (sym.term(st.target), sym.term(st.value)))))
            elif ev.kind == "test":
                fs = sym.facts_of(ev.node, ev.data)
                self.atom_facts[i] = fs
                self.facts.extend(fs)
            elif ev.kind == "catch":
                if ev.node.name:
                    sym.bind(ev.node.name, Lin.of_term(("exc", Program.exc_name(ev.data), ev.node.name)))
        self.nfacts_before.append(len(self.facts))
        self.env_before.append(dict(sym.env))

    def _store(self, target: ast.expr, value: ast.expr):
        k = target_key(target)
        if k is not None:
            self.sym.bind(k, self.sym.lin(value))
        elif isinstance(target, (ast.Tuple, ast.List)):
            vt = self.sym.lin(value).single_term()
            if vt is not None and vt[0] == "tuple" and len(vt[1]) == len(target.elts):
                for e, v in zip(target.elts, vt[1]):      # a, b = struct.unpack_from('>Hh', data, 4)
                    kk = target_key(e)
                    if kk is not None:
                        self.sym.bind(kk, v)
                return
            if isinstance(value, (ast.Tuple, ast.List)) and len(value.elts) == len(target.elts):
                vals = [self.sym.lin(v) for v in value.elts]
                for e, v in zip(target.elts, vals):
                    kk = target_key(e)
                    if kk is not None:
                        self.sym.bind(kk, v)
                return
            for e in target.elts:
                kk = target_key(e)
                if kk is not None:
                    self.sym.bind(kk, Lin.of_term(("unpacked", norm(value), kk)))

    def facts_before(self, i: int) -> List[Fact]:
        return self.facts[: self.nfacts_before[i]]

    def sym_at(self, i: int) -> Sym:
        s = self.sym.copy()
        s.env = dict(self.env_before[i])
        return s


def _default_of(g: FuncInfo, pname: str) -> Optional[ast.expr]:
    a = g.node.args
    pos = a.posonlyargs + a.args
    names = [x.arg for x in pos]
    if pname in names:
        k = names.index(pname) - (len(pos) - len(a.defaults))
        return a.defaults[k] if k >= 0 else None
    for x, d in zip(a.kwonlyargs, a.kw_defaults):
        if x.arg == pname:
            return d
    return None


def make_inliner(prog: Program, fn: FuncInfo, depth: int = 0):
    """Hook for Sym: symbolic value of a call to a small pure helper of the package (static method or module
    function whose body is assignments / the sum-loop idiom / one return), e.g. Aa55ProtocolCommand._checksum."""
    from .paths import enumerate_paths

    def inline(sym: Sym, call: ast.Call):
        if depth > 2:
            return None
        f = call.func
        target = None
        if isinstance(f, ast.Name):
            b = prog.lookup(fn.module, f.id)
            if b and b[0] == "func":
                target = b[1]
        elif isinstance(f, ast.Attribute):
            owner = None
            if isinstance(f.value, ast.Name):
                b = prog.lookup(fn.module, f.value.id)
                if b and b[0] == "class":
                    owner = b[1]
                elif f.value.id in ("self", "cls") and fn.cls is not None:
                    owner = fn.cls
            if owner is not None:
                m = prog.find_method(owner, f.attr)
                if m is not None and (m.is_static or m.is_classmethod):
                    target = m
        if target is None or target.is_async or call.keywords:
            return None
        body = [s for s in target.node.body if not (isinstance(s, ast.Expr) and isinstance(s.value, ast.Constant))]
        if not body or not isinstance(body[-1], ast.Return) or body[-1].value is None:
            return None
        for s in body[:-1]:
            if isinstance(s, ast.Assign) or (isinstance(s, ast.For) and sum_loop_idiom(s) is not None):
                continue
            return None
        params = target.params[1:] if target.is_classmethod else target.params
        if len(params) != len(call.args):
            return None
        paths = enumerate_paths(prog, target)
        if not paths:
            return None
        inner = Sym.for_function(prog, target)
        inner.inline = make_inliner(prog, target, depth + 1)
        for p_, a in zip(params, call.args):
            inner.bind(p_, sym.lin(a))
        rp = Replay(prog, target, paths[0], inner)
        return rp.sym.lin(body[-1].value)
    return inline
