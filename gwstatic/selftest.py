"""Sensitivity self-test of the checkers.

Each variant is one edit of the *current* tree (scratch copy in a fresh
mkdtemp directory outside /repo and /verif, removed afterwards); the edited
text is compiled (syntax only - never executed) and analysed.  A seeded break
that is not reported under the expected rule, or a behaviour-preserving
rewrite that is reported, is an error of the checker (ANALYSIS-ERROR, exit 2) -
never a VIOLATION of the repository.  Variants whose anchor text is absent
from the current tree are skipped and counted.
"""
from __future__ import annotations

import os
import shutil
import sys
import tempfile
import traceback
from concurrent.futures import ProcessPoolExecutor
from typing import Any, Dict, List, Optional

from . import AnalysisError


class M:
    """One variant: replace *old* by *new* in *file* (exactly *count* occurrences).
    expect: 'clean' or a rule id such as 'C01.R2' (several: 'C01.R2|C01.R4'); '|error' also accepts ANALYSIS-ERROR;
    'violation' accepts any rule of the property.  file '@patch:<path under /verif>' applies a whole diff instead."""

    def __init__(self, pid: str, name: str, file: str, old: str, new: str, expect: str, count: int = 1, also: Optional[List] = None):
        self.pid, self.name, self.file, self.old, self.new, self.expect, self.count = pid, name, file, old, new, expect, count
        self.also = also or []   # further (file, old, new) edits of the same variant


def _apply(src: str, old: str, new: str, count: int) -> Optional[str]:
    if src.count(old) != count:
        return None
    return src.replace(old, new)


def _run_variant(args) -> Dict[str, Any]:
    m_dict, repo, base_keys = args
    from .__main__ import run_property
    from .core import apply_known
    pid, name = m_dict["pid"], m_dict["name"]
    tmp = tempfile.mkdtemp(prefix="gwstatic-selftest-")
    try:
        dst = os.path.join(tmp, "goodwe")
        shutil.copytree(os.path.join(repo, "goodwe"), dst)
        edits = [(m_dict["file"], m_dict["old"], m_dict["new"], m_dict["count"])] + [tuple(a) + (1,) if len(a) == 3 else tuple(a) for a in m_dict["also"]]
        if m_dict["file"].startswith("@patch:"):
            # a whole change kept under /verif/seeded (seeded break or behaviour-preserving refactoring), applied with git apply
            import subprocess
            patch = os.path.join(os.path.dirname(os.path.dirname(os.path.abspath(__file__))), m_dict["file"][len("@patch:"):])
            if not os.path.exists(patch):
                return {"name": name, "pid": pid, "result": "skipped", "why": "patch %s absent" % patch}
            r = subprocess.run(["git", "apply", "-p1", "--include=goodwe/*", patch], cwd=tmp, capture_output=True, text=True)
            if r.returncode != 0:
                return {"name": name, "pid": pid, "result": "skipped", "why": "patch does not apply: %s" % r.stderr.strip()[:120]}
            edits = []
        for file, old, new, count in edits:
            p = os.path.join(tmp, file)
            if not os.path.exists(p):
                return {"name": name, "pid": pid, "result": "skipped", "why": "file %s absent" % file}
            with open(p, encoding="utf-8") as f:
                src = f.read()
            out = _apply(src, old, new, count)
            if out is None:
                return {"name": name, "pid": pid, "result": "skipped", "why": "anchor occurs %d times, expected %d" % (src.count(old), count)}
            try:
                compile(out, p, "exec")
            except SyntaxError as e:
                return {"name": name, "pid": pid, "result": "wrong", "why": "variant does not compile: %s" % e}
            with open(p, "w", encoding="utf-8") as f:
                f.write(out)
        try:
            rep, ctx, mod = run_property(pid, tmp, "quick")
            apply_known(rep)
            viol = [o for o in rep.violations() if (o.rule, o.key, o.what) not in base_keys]
            rules = sorted({o.rule for o in viol})
            got = "clean" if not viol else "|".join(rules)
            detail = [o.what[:160] for o in viol[:3]]
        except AnalysisError as e:
            got, rules, detail = "error", [], [str(e)[:200]]
        exp = m_dict["expect"].split("|")
        if got == "clean":
            ok = "clean" in exp
        elif got == "error":
            ok = "error" in exp
        else:
            ok = any(r in exp for r in rules) or "violation" in exp
        return {"name": name, "pid": pid, "result": "as_expected" if ok else "wrong", "got": got, "expect": m_dict["expect"], "detail": detail}
    except Exception:
        return {"name": name, "pid": pid, "result": "wrong", "why": traceback.format_exc()[-600:]}
    finally:
        shutil.rmtree(tmp, ignore_errors=True)


def run(pid: Optional[str], repo: str, jobs: int = 16, verbose: bool = False) -> Dict[str, Any]:
    from .mutations import corpus
    from .__main__ import run_property
    from .core import apply_known
    ms = [m for m in corpus() if pid is None or m.pid == pid.upper()]
    # violations already present on the unmodified tree (known findings or otherwise) are not attributed to a variant
    base: Dict[str, set] = {}
    for p in sorted({m.pid for m in ms}):
        try:
            rep, _, _ = run_property(p, repo, "quick")
            base[p] = {(o.rule, o.key, o.what) for o in rep.violations()}
        except AnalysisError:
            base[p] = set()
    tasks = [({"pid": m.pid, "name": m.name, "file": m.file, "old": m.old, "new": m.new, "count": m.count, "expect": m.expect, "also": m.also},
              repo, base[m.pid]) for m in ms]
    results: List[Dict[str, Any]] = []
    if jobs > 1 and len(tasks) > 1:
        with ProcessPoolExecutor(max_workers=min(jobs, len(tasks))) as ex:
            results = list(ex.map(_run_variant, tasks))
    else:
        results = [_run_variant(t) for t in tasks]
    wrong = ["%s/%s: expected %s, got %s %s" % (r["pid"], r["name"], r.get("expect"), r.get("got"), r.get("why") or r.get("detail") or "")
             for r in results if r["result"] == "wrong"]
    if verbose:
        for r in results:
            print("  %-11s %s/%s %s %s" % (r["result"], r["pid"], r["name"], r.get("got", ""), (r.get("why") or "")))
    return {"variants": len(results), "as_expected": sum(r["result"] == "as_expected" for r in results),
            "skipped": sum(r["result"] == "skipped" for r in results), "wrong": wrong,
            "skipped_names": [r["name"] for r in results if r["result"] == "skipped"],
            "breaks_detected": [r["name"] for r in results if r["result"] == "as_expected" and r.get("got") not in ("clean", None)],
            "benign_silent": [r["name"] for r in results if r["result"] == "as_expected" and r.get("got") == "clean"]}
