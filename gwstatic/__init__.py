"""gwstatic - repository-specific static analysis of marcelblijleven/goodwe.

Nothing under the analysed repository is imported or executed: every verdict
is computed from the abstract syntax trees of ``<repo>/goodwe/*.py``.
"""

__all__ = ["AnalysisError"]


class AnalysisError(Exception):
    """The analysis itself cannot give a verdict (anchor vanished, idiom not
    understood, unresolved call in a function a rule depends on ...).
    Reported as ``ANALYSIS-ERROR`` with exit code 2 - never as a violation and
    never as a silent pass."""


class StructuralViolation(AnalysisError):
    """A construct every rule of a property is built on was replaced by something that itself breaks the property
    (e.g. the payload cut of a response made to depend on unchecked response bytes).  For the properties named in
    *pids* this is reported as a violation of rule ``<pid>.R0`` at *where*; for every other property it stays what
    its base class says: the analysis cannot give a verdict."""

    def __init__(self, pids, key: str, where: str, rule_text: str, msg: str):
        super().__init__(msg)
        self.pids, self.key, self.where, self.rule_text, self.msg = set(pids), key, where, rule_text, msg
