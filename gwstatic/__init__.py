"""gwstatic - repository-specific static analysis of marcelblijleven/goodwe.

Nothing under the analysed repository is imported or executed: every verdict
is computed from the abstract syntax trees of ``<repo>/goodwe/*.py``.
"""

__all__ = ["AnalysisError"]


class AnalysisError(Exception):
    """The analysis itself cannot give a verdict (anchor vanished, idiom not
    understood, unresolved call in a function a rule depends on ...).
    Reported as ``ANALYSIS-ERROR`` with exit code 2 - never as a violation and
    never as a silent pass."""
