"""Constant folding of a closed function: a function without parameters whose body only uses assignments to locals,
loops over constant iterables, conditionals, list.append and a return is evaluated to the constant it denotes (the
CRC lookup table).  This is partial evaluation of a closed term by the analyser's own constant evaluator - nothing of
the package is imported or executed."""
from __future__ import annotations

import ast
from typing import Any, Dict

from . import AnalysisError
from .model import Program, FuncInfo, NotConst


class FoldRaises(NotConst):
    """The folded function reached a raise statement for these arguments (a NotConst for callers that do not care)."""


class _Return(Exception):
    def __init__(self, value):
        self.value = value


def fold_function(prog: Program, fn: FuncInfo, budget: int = 200000, args: Dict[str, Any] = None) -> Any:
    """Value returned by the closed function *fn* (or by *fn* applied to the constant arguments *args*); NotConst when
    it is not closed / uses an unsupported construct."""
    if [p_ for p_ in fn.params if p_ not in (args or {})]:
        raise NotConst("%s takes parameters" % fn.short)
    env: Dict[str, Any] = dict(args or {})
    steps = [0]

    def ev(e):
        # self._helper(args) / cls._helper(args) inside the folded method: the helper is folded with the evaluated arguments
        if fn.cls is not None and any(isinstance(x, ast.Call) and isinstance(x.func, ast.Attribute) and isinstance(x.func.value, ast.Name)
                                      and x.func.value.id in ("self", "cls") and prog.find_method(fn.cls, x.func.attr) is not None for x in ast.walk(e)):
            import copy

            class _Calls(ast.NodeTransformer):
                def visit_Call(inner, n):
                    n = inner.generic_visit(n)
                    if isinstance(n.func, ast.Attribute) and isinstance(n.func.value, ast.Name) and n.func.value.id in ("self", "cls") and not n.keywords:
                        m = prog.find_method(fn.cls, n.func.attr)
                        if m is not None and not m.is_async and steps[0] < budget:
                            static = any(isinstance(d, ast.Name) and d.id == "staticmethod" for d in m.node.decorator_list)
                            vals = [prog.consteval(a, fn.module, env) for a in n.args]
                            names = list(m.params) if static else list(m.params[1:])
                            if len(vals) == len(names):
                                args = dict(zip(names, vals))
                                if not static:
                                    args[m.params[0]] = env.get(n.func.value.id)
                                steps[0] += 50
                                key = "__fold_call_%d" % len(env)
                                env[key] = fold_function(prog, m, budget=budget - steps[0], args=args)
                                return ast.copy_location(ast.Name(id=key, ctx=ast.Load()), n)
                    return n
            e = ast.fix_missing_locations(_Calls().visit(copy.deepcopy(e)))
        return prog.consteval(e, fn.module, env)

    def store(t, v):
        if isinstance(t, ast.Name):
            env[t.id] = v
        elif isinstance(t, (ast.Tuple, ast.List)):
            vs = list(v)
            if len(vs) != len(t.elts):
                raise NotConst("unpacking")
            for a, b in zip(t.elts, vs):
                store(a, b)
        elif isinstance(t, ast.Subscript) and isinstance(t.value, ast.Name) and isinstance(env.get(t.value.id), (list, dict)):
            env[t.value.id][ev(t.slice)] = v
        elif isinstance(t, ast.Attribute) and isinstance(t.value, ast.Name) and getattr(env.get(t.value.id), "_fold_mutable", False):
            setattr(env[t.value.id], t.attr, v)          # self.x = v on a stand-in object the caller handed in
        else:
            raise NotConst("store to %s" % ast.dump(t)[:40])

    def run(stmts):
        for st in stmts:
            steps[0] += 1
            if steps[0] > budget:
                raise NotConst("folding budget exceeded")
            if isinstance(st, ast.Expr):
                if isinstance(st.value, ast.Constant):
                    continue
                c = st.value
                if isinstance(c, ast.Call) and isinstance(c.func, ast.Attribute) and isinstance(c.func.value, ast.Name) \
                        and isinstance(env.get(c.func.value.id), list) and c.func.attr in ("append", "extend") and len(c.args) == 1:
                    getattr(env[c.func.value.id], c.func.attr)(ev(c.args[0]))
                    continue
                raise NotConst("statement %s" % ast.unparse(st)[:50])
            if isinstance(st, ast.Assign):
                v = ev(st.value) if not isinstance(st.value, (ast.List,)) or st.value.elts else []
                for t in st.targets:
                    store(t, v)
            elif isinstance(st, ast.AnnAssign) and st.value is not None:
                store(st.target, ev(st.value))
            elif isinstance(st, ast.AugAssign):
                cur = ast.BinOp(left=ast.copy_location(_load(st.target), st), op=st.op, right=st.value)
                store(st.target, ev(ast.fix_missing_locations(ast.copy_location(cur, st))))
            elif isinstance(st, ast.For):
                for item in list(ev(st.iter)):
                    store(st.target, item)
                    run(st.body)
                run(st.orelse)
            elif isinstance(st, ast.While):
                while ev(st.test):
                    steps[0] += 1
                    if steps[0] > budget:
                        raise NotConst("folding budget exceeded")
                    run(st.body)
            elif isinstance(st, ast.If):
                run(st.body if ev(st.test) else st.orelse)
            elif isinstance(st, ast.Return):
                raise _Return(ev(st.value) if st.value is not None else None)
            elif isinstance(st, ast.Pass):
                continue
            elif isinstance(st, ast.Raise):
                raise FoldRaises("raise %s" % (ast.unparse(st.exc)[:60] if st.exc is not None else ""))
            else:
                raise NotConst("statement kind %s" % type(st).__name__)

    try:
        run(fn.node.body)
    except _Return as r:
        return r.value
    return None


def _load(t: ast.expr) -> ast.expr:
    import copy
    t2 = copy.deepcopy(t)
    for n in ast.walk(t2):
        if hasattr(n, "ctx"):
            n.ctx = ast.Load()
    return t2
