"""Small AST helpers shared by the rules."""
from __future__ import annotations

import ast
from typing import Iterator, List, Optional, Tuple


def chain(e: ast.AST) -> Optional[Tuple[str, ...]]:
    """self.response_future.set_result -> ('self', 'response_future', 'set_result');
    calls in the chain are written with '()' : asyncio.get_running_loop().call_later ->
    ('asyncio', 'get_running_loop()', 'call_later')."""
    if isinstance(e, ast.Name):
        return (e.id,)
    if isinstance(e, ast.Attribute):
        b = chain(e.value)
        return None if b is None else b + (e.attr,)
    if isinstance(e, ast.Call):
        b = chain(e.func)
        return None if b is None else b[:-1] + (b[-1] + "()",)
    if isinstance(e, ast.Await):
        return chain(e.value)
    return None


def call_chain(call: ast.AST) -> Optional[Tuple[str, ...]]:
    return chain(call.func) if isinstance(call, ast.Call) else None


def is_call_to(node: ast.AST, *suffix: str) -> bool:
    """Call whose callee chain ends with the given names (is_call_to(n, 'response_future', 'set_result'))."""
    c = call_chain(node)
    return c is not None and len(c) >= len(suffix) and c[-len(suffix):] == tuple(suffix)


def self_store(st: ast.stmt) -> List[Tuple[str, Optional[ast.expr], str]]:
    """Stores to self.<attr> performed by a simple statement: [(attr, value, kind)],
    kind in {'assign', 'aug'}; tuple targets yield value None."""
    out = []

    def tgt(t, value, kind):
        if isinstance(t, ast.Attribute) and isinstance(t.value, ast.Name) and t.value.id == "self":
            out.append((t.attr, value, kind))
        elif isinstance(t, (ast.Tuple, ast.List)):
            for e in t.elts:
                tgt(e, None, kind)

    if isinstance(st, ast.Assign):
        for t in st.targets:
            tgt(t, st.value, "assign")
    elif isinstance(st, ast.AnnAssign) and st.value is not None:
        tgt(st.target, st.value, "assign")
    elif isinstance(st, ast.AugAssign):
        tgt(st.target, st.value, "aug")
    return out


def name_stores(st: ast.stmt) -> List[str]:
    out = []

    def tgt(t):
        if isinstance(t, ast.Name):
            out.append(t.id)
        elif isinstance(t, (ast.Tuple, ast.List)):
            for e in t.elts:
                tgt(e)

    if isinstance(st, ast.Assign):
        for t in st.targets:
            tgt(t)
    elif isinstance(st, (ast.AnnAssign, ast.AugAssign)):
        tgt(st.target)
    return out


def walk_no_lambda(node: ast.AST) -> Iterator[ast.AST]:
    stack = [node]
    while stack:
        n = stack.pop()
        yield n
        for c in ast.iter_child_nodes(n):
            if isinstance(c, (ast.Lambda, ast.FunctionDef, ast.AsyncFunctionDef, ast.ClassDef)):
                continue
            stack.append(c)


def const_true(e: Optional[ast.expr]) -> bool:
    return isinstance(e, ast.Constant) and e.value is True


def const_false(e: Optional[ast.expr]) -> bool:
    return isinstance(e, ast.Constant) and e.value is False
