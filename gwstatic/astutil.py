"""Small AST helpers shared by the rules."""
from __future__ import annotations

import ast
from typing import Dict, Iterator, List, Optional, Tuple


# ------------------------------------------------------------------ aliases
# A local that is bound exactly once and is the same object as self.<attr> (``x = self.a`` or ``self.a = x`` with a
# single store of self.a in the function) is written as ('self', '<attr>') in access chains, so that
# ``fut = loop.create_future(); self.response_future = fut; fut.set_exception(..)`` reads like the unaliased form.
_OWNER: Dict[int, object] = {}
_ALIASES: Dict[int, Dict[str, Tuple[str, ...]]] = {}


def register_functions(functions) -> None:
    _OWNER.clear()
    _ALIASES.clear()
    for fn in functions:
        if getattr(fn, "is_lambda", False):
            continue
        for n in walk_no_lambda(fn.node):
            if isinstance(n, ast.Name):
                _OWNER[id(n)] = fn


def alias_map(fn) -> Dict[str, Tuple[str, ...]]:
    key = id(fn.node)
    if key in _ALIASES:
        return _ALIASES[key]
    binds: Dict[str, int] = {}
    a = fn.node.args
    params = {x.arg for x in a.posonlyargs + a.args + a.kwonlyargs}
    for p_ in params:
        binds[p_] = 1
    attr_stores: Dict[str, int] = {}
    cands: List[Tuple[str, str]] = []
    for n in walk_no_lambda(fn.node):
        if isinstance(n, ast.Name) and isinstance(n.ctx, (ast.Store, ast.Del)):
            binds[n.id] = binds.get(n.id, 0) + 1
        elif isinstance(n, ast.ExceptHandler) and n.name:
            binds[n.name] = binds.get(n.name, 0) + 2
        if isinstance(n, (ast.Assign, ast.AnnAssign)) and n.value is not None:
            tgts = n.targets if isinstance(n, ast.Assign) else [n.target]
            for t in tgts:
                if isinstance(t, ast.Attribute) and isinstance(t.value, ast.Name) and t.value.id == "self":
                    attr_stores[t.attr] = attr_stores.get(t.attr, 0) + 1
                    if isinstance(n.value, ast.Name) and len(tgts) == 1:
                        cands.append((n.value.id, t.attr))
                elif isinstance(t, ast.Name) and len(tgts) == 1 and isinstance(n.value, ast.Attribute) \
                        and isinstance(n.value.value, ast.Name) and n.value.value.id == "self":
                    cands.append((t.id, n.value.attr))
        elif isinstance(n, ast.AugAssign) and isinstance(n.target, ast.Attribute) and isinstance(n.target.value, ast.Name) \
                and n.target.value.id == "self":
            attr_stores[n.target.attr] = attr_stores.get(n.target.attr, 0) + 2
    out: Dict[str, Tuple[str, ...]] = {}
    for name, attr in cands:
        if name in ("self", "cls") or binds.get(name, 0) != 1 or attr_stores.get(attr, 0) > 1:
            continue
        if sum(1 for c in cands if c[0] == name) != 1:
            continue
        out[name] = ("self", attr)
    _ALIASES[key] = out
    return out


def chain(e: ast.AST) -> Optional[Tuple[str, ...]]:
    """self.response_future.set_result -> ('self', 'response_future', 'set_result');
    calls in the chain are written with '()' : asyncio.get_running_loop().call_later ->
    ('asyncio', 'get_running_loop()', 'call_later').  Locals that alias self.<attr> are canonicalised."""
    if isinstance(e, ast.Name):
        fn = _OWNER.get(id(e))
        if fn is not None:
            al = alias_map(fn).get(e.id)
            if al is not None:
                return al
        return (e.id,)
    if isinstance(e, ast.Attribute):
        b = chain(e.value)
        return None if b is None else b + (e.attr,)
    if isinstance(e, ast.Call):
        b = chain(e.func)
        return None if b is None else b[:-1] + (b[-1] + "()",)
    if isinstance(e, ast.Await):
        return chain(e.value)
    return None


def call_chain(call: ast.AST) -> Optional[Tuple[str, ...]]:
    return chain(call.func) if isinstance(call, ast.Call) else None


def is_call_to(node: ast.AST, *suffix: str) -> bool:
    """Call whose callee chain ends with the given names (is_call_to(n, 'response_future', 'set_result'))."""
    c = call_chain(node)
    return c is not None and len(c) >= len(suffix) and c[-len(suffix):] == tuple(suffix)


def self_store(st: ast.stmt) -> List[Tuple[str, Optional[ast.expr], str]]:
    """Stores to self.<attr> performed by a simple statement: [(attr, value, kind)],
    kind in {'assign', 'aug'}; tuple targets yield value None."""
    out = []

    def tgt(t, value, kind):
        if isinstance(t, ast.Attribute) and isinstance(t.value, ast.Name) and t.value.id == "self":
            out.append((t.attr, value, kind))
        elif isinstance(t, (ast.Tuple, ast.List)):
            for e in t.elts:
                tgt(e, None, kind)

    if isinstance(st, ast.Assign):
        for t in st.targets:
            tgt(t, st.value, "assign")
    elif isinstance(st, ast.AnnAssign) and st.value is not None:
        tgt(st.target, st.value, "assign")
    elif isinstance(st, ast.AugAssign):
        tgt(st.target, st.value, "aug")
    return out


def name_stores(st: ast.stmt) -> List[str]:
    out = []

    def tgt(t):
        if isinstance(t, ast.Name):
            out.append(t.id)
        elif isinstance(t, (ast.Tuple, ast.List)):
            for e in t.elts:
                tgt(e)

    if isinstance(st, ast.Assign):
        for t in st.targets:
            tgt(t)
    elif isinstance(st, (ast.AnnAssign, ast.AugAssign)):
        tgt(st.target)
    return out


def walk_no_lambda(node: ast.AST) -> Iterator[ast.AST]:
    stack = [node]
    while stack:
        n = stack.pop()
        yield n
        for c in ast.iter_child_nodes(n):
            if isinstance(c, (ast.Lambda, ast.FunctionDef, ast.AsyncFunctionDef, ast.ClassDef)):
                continue
            stack.append(c)


def const_true(e: Optional[ast.expr]) -> bool:
    return isinstance(e, ast.Constant) and e.value is True


def const_false(e: Optional[ast.expr]) -> bool:
    return isinstance(e, ast.Constant) and e.value is False


def single_assignments(fn_node: ast.AST) -> Dict[str, ast.expr]:
    """Locals bound exactly once by a plain assignment: name -> value expression."""
    count: Dict[str, int] = {}
    value: Dict[str, ast.expr] = {}
    for n in walk_no_lambda(fn_node):
        if isinstance(n, ast.Name) and isinstance(n.ctx, (ast.Store, ast.Del)):
            count[n.id] = count.get(n.id, 0) + 1
        if isinstance(n, ast.Assign) and len(n.targets) == 1 and isinstance(n.targets[0], ast.Name):
            value[n.targets[0].id] = n.value
        elif isinstance(n, ast.AnnAssign) and isinstance(n.target, ast.Name) and n.value is not None:
            value[n.target.id] = n.value
        elif isinstance(n, ast.NamedExpr) and isinstance(n.target, ast.Name):
            value[n.target.id] = n.value
        elif isinstance(n, ast.Assign) and len(n.targets) == 1 and isinstance(n.targets[0], ast.Tuple) \
                and all(isinstance(t, ast.Name) for t in n.targets[0].elts):
            # q, r = divmod(a, b) / a, b = x, y: each name stands for its component
            names = [t.id for t in n.targets[0].elts]
            if isinstance(n.value, ast.Tuple) and len(n.value.elts) == len(names):
                for nm, v in zip(names, n.value.elts):
                    value[nm] = v
            elif isinstance(n.value, ast.Call) and isinstance(n.value.func, ast.Name) and n.value.func.id == "divmod" and len(names) == 2 and len(n.value.args) == 2:
                a_, b_ = n.value.args
                value[names[0]] = ast.copy_location(ast.BinOp(left=a_, op=ast.FloorDiv(), right=b_), n.value)
                value[names[1]] = ast.copy_location(ast.BinOp(left=a_, op=ast.Mod(), right=b_), n.value)
    args = getattr(fn_node, "args", None)
    params = {x.arg for x in (args.posonlyargs + args.args + args.kwonlyargs)} if args is not None else set()
    return {k: v for k, v in value.items() if count.get(k, 0) == 1 and k not in params}


def alternatives(e: Optional[ast.expr], local: Optional[Dict[str, ast.expr]] = None, depth: int = 0) -> List[ast.expr]:
    """The expressions a value may come from: both arms of ``a if c else b``, the operands of ``a or b``,
    and the defining expression of a local that is bound once."""
    if e is None or depth > 6:
        return [] if e is None else [e]
    if isinstance(e, ast.IfExp):
        return alternatives(e.body, local, depth + 1) + alternatives(e.orelse, local, depth + 1)
    if isinstance(e, ast.BoolOp):
        out: List[ast.expr] = []
        for v in e.values:
            out.extend(alternatives(v, local, depth + 1))
        return out
    if isinstance(e, ast.Name) and local and e.id in local:
        return alternatives(local[e.id], local, depth + 1)
    if isinstance(e, ast.Await):
        return alternatives(e.value, local, depth + 1)
    return [e]


def returned_values(fn_node: ast.AST) -> List[ast.expr]:
    local = single_assignments(fn_node)
    out: List[ast.expr] = []
    for n in walk_no_lambda(fn_node):
        if isinstance(n, ast.Return) and n.value is not None:
            out.extend(alternatives(n.value, local))
    return out


# ------------------------------------------------------- AST-level inlining
class _SubstNames(ast.NodeTransformer):
    def __init__(self, env: Dict[str, ast.expr]):
        self.env = env

    def visit_Name(self, n):
        if n.id in self.env:
            import copy
            r = self.env[n.id]
            if isinstance(n.ctx, ast.Load):
                return copy.deepcopy(r)
            if isinstance(r, ast.Name):
                return ast.Name(id=r.id, ctx=n.ctx)
        return n

    def visit_Lambda(self, n):
        return n

    def visit_JoinedStr(self, n):
        n = self.generic_visit(n)
        # f"{'032c'}{x:02x}" -> f"032c{x:02x}": a constant string substituted into a placeholder is a literal piece
        vals = []
        for v in n.values:
            if isinstance(v, ast.FormattedValue) and isinstance(v.value, ast.Constant) and isinstance(v.value.value, str) \
                    and v.format_spec is None and v.conversion == -1:
                v = ast.copy_location(ast.Constant(value=v.value.value), v)
            if isinstance(v, ast.Constant) and vals and isinstance(vals[-1], ast.Constant):
                vals[-1] = ast.copy_location(ast.Constant(value=str(vals[-1].value) + str(v.value)), vals[-1])
            else:
                vals.append(v)
        n.values = vals
        return n

    def visit_Call(self, n):
        n = self.generic_visit(n)
        # (lambda: body)()  ->  body      (a callable argument substituted into its call site)
        if isinstance(n.func, ast.Lambda) and not n.args and not n.keywords and not n.func.args.args and not n.func.args.kwonlyargs \
                and n.func.args.vararg is None and n.func.args.kwarg is None:
            return n.func.body
        return n


def subst(e: ast.AST, env: Dict[str, ast.expr]) -> ast.AST:
    """Copy of *e* with the (loaded) names of *env* replaced by their expressions."""
    import copy
    if not env:
        return e
    return ast.fix_missing_locations(_SubstNames(env).visit(copy.deepcopy(e)))


def expand_locals(e: ast.expr, fn_node: ast.AST, rounds: int = 4) -> ast.expr:
    """*e* with the locals that are bound exactly once replaced by their defining expressions."""
    local = single_assignments(fn_node)
    for _ in range(rounds):
        if not any(isinstance(n, ast.Name) and n.id in local for n in ast.walk(e)):
            break
        e = subst(e, local)
    return e


def inlined_body(res, fn, depth: int = 0) -> List[ast.stmt]:
    """The statements of *fn* with calls to helpers outside the pinned inventory expanded in place (``return h(a)``,
    ``x = h(a)``, ``h(a)`` as a statement).  Only helpers whose body is straight-line code ending in at most one
    return are expanded; their parameters are substituted by the argument expressions and their locals renamed.
    Used by the rules that read a function's body as a sequence of statements."""
    from .inventory import KNOWN_FUNCS, is_known
    from .calls import arg_for
    out: List[ast.stmt] = []

    def helper(call):
        if not isinstance(call, ast.Call) or depth > 3:
            return None
        try:
            ct = res.resolve_call(call, fn)
        except Exception:
            return None
        if ct.unresolved or ct.ctor is not None or ct.ext or len(ct.funcs) != 1:
            return None
        g = ct.funcs[0]
        if g.is_lambda or is_known(g, res.prog) or g is fn:
            return None
        body = [s for s in inlined_body(res, g, depth + 1) if not (isinstance(s, ast.Expr) and isinstance(s.value, ast.Constant))]
        rets = [n for s in body for n in walk_no_lambda(s) if isinstance(n, ast.Return)]
        if len(rets) > 1 or (rets and rets[0] is not body[-1]):
            return None
        if any(isinstance(n, (ast.Yield, ast.YieldFrom, ast.Global, ast.Nonlocal)) for s in body for n in ast.walk(s)):
            return None
        env: Dict[str, ast.expr] = {}
        bound_self = g.cls is not None and not g.is_static and g.params and g.params[0] in ("self", "cls")
        for pn in g.params:
            if bound_self and pn == g.params[0]:
                if isinstance(call.func, ast.Attribute) and not (isinstance(call.func.value, ast.Name) and call.func.value.id == pn):
                    env[pn] = call.func.value
                continue
            a = arg_for(call, g, pn)
            if a is None:
                a_ = g.node.args
                pos = a_.posonlyargs + a_.args
                names = [x.arg for x in pos]
                k = names.index(pn) - (len(pos) - len(a_.defaults)) if pn in names else -1
                a = a_.defaults[k] if k >= 0 else None
            if a is None:
                return None
            env[pn] = a
        locals_ = {n.id for s in body for n in ast.walk(s) if isinstance(n, ast.Name) and isinstance(n.ctx, ast.Store)} - set(env)
        for ln in locals_:
            env[ln] = ast.Name(id="%s__%s" % (ln, g.name.strip("_")), ctx=ast.Load())
        return [subst(s, env) for s in body]

    for st in fn.node.body:
        call = None
        if isinstance(st, (ast.Return, ast.Expr)) and isinstance(st.value, (ast.Call, ast.Await)):
            call = st.value.value if isinstance(st.value, ast.Await) else st.value
        elif isinstance(st, ast.Assign) and len(st.targets) == 1 and isinstance(st.value, (ast.Call, ast.Await)):
            call = st.value.value if isinstance(st.value, ast.Await) else st.value
        body = helper(call) if call is not None else None
        if body is None:
            out.append(st)
            continue
        last_ret = body[-1] if body and isinstance(body[-1], ast.Return) else None
        pre = body[:-1] if last_ret is not None else body
        out.extend(pre)
        if isinstance(st, ast.Return):
            out.append(ast.copy_location(ast.Return(value=last_ret.value if last_ret is not None else None), st))
        elif isinstance(st, ast.Assign):
            val = last_ret.value if last_ret is not None and last_ret.value is not None else ast.Constant(value=None)
            out.append(ast.fix_missing_locations(ast.copy_location(ast.Assign(targets=st.targets, value=val), st)))
        elif last_ret is not None and last_ret.value is not None:
            out.append(ast.copy_location(ast.Expr(value=last_ret.value), st))
    return out


def inline_pure_calls(res, fn, e: ast.expr, depth: int = 0, guards: bool = False) -> ast.expr:
    """A copy of *e* in which calls to package helpers outside the pinned inventory that consist of one return
    statement are replaced by the returned expression (parameters substituted by the argument expressions)."""
    import copy
    from .inventory import is_known
    from .calls import arg_for

    class T(ast.NodeTransformer):
        def visit_Call(self, n):
            n = self.generic_visit(n)
            if depth > 3:
                return n
            try:
                ct = res.resolve_call(n, fn)
            except Exception:
                return n
            if ct.unresolved or ct.ctor is not None or ct.ext or len(ct.funcs) != 1:
                return n
            g = ct.funcs[0]
            if g.is_lambda or g.is_async or is_known(g, res.prog) or g is fn:
                return n
            body = [s_ for s_ in g.node.body if not (isinstance(s_, ast.Expr) and isinstance(s_.value, ast.Constant))]
            if guards:
                # leading `if <test>: raise ...` statements only narrow the arguments for which the helper returns
                while len(body) > 1 and isinstance(body[0], ast.If) and not body[0].orelse and len(body[0].body) == 1 and isinstance(body[0].body[0], ast.Raise):
                    body = body[1:]
            if len(body) != 1 or not isinstance(body[0], ast.Return) or body[0].value is None:
                return n
            env = {}
            a_ = g.node.args
            pos = a_.posonlyargs + a_.args
            defaults = dict(zip([x.arg for x in pos[len(pos) - len(a_.defaults):]], a_.defaults))
            defaults.update({k.arg: d for k, d in zip(a_.kwonlyargs, a_.kw_defaults) if d is not None})
            for pn in g.params:
                a = arg_for(n, g, pn)
                if a is None and isinstance(defaults.get(pn), ast.Constant):
                    a = defaults[pn]              # an omitted argument takes its (constant) default
                if a is not None:
                    env[pn] = a
            return inline_pure_calls(res, g, subst(body[0].value, env), depth + 1, guards)
    return ast.fix_missing_locations(T().visit(copy.deepcopy(e)))


def calls_through_helpers(res, fn, pred, depth: int = 0) -> List[ast.Call]:
    """Call nodes of *fn* satisfying *pred*, plus those inside helpers outside the pinned inventory that *fn* calls
    (returned as copies with the helper's parameters replaced by the caller's argument expressions)."""
    from .inventory import KNOWN_FUNCS, is_known
    from .calls import arg_for
    out: List[ast.Call] = []
    for n in walk_no_lambda(fn.node):
        if not isinstance(n, ast.Call):
            continue
        if pred(n):
            out.append(n)
            continue
        if depth > 3:
            continue
        try:
            ct = res.resolve_call(n, fn)
        except Exception:
            continue
        if ct.unresolved or ct.ctor is not None or ct.ext or len(ct.funcs) != 1:
            continue
        g = ct.funcs[0]
        if g.is_lambda or is_known(g, res.prog) or g is fn:
            continue
        env: Dict[str, ast.expr] = {}
        for pn in g.params:
            a = arg_for(n, g, pn)
            if a is not None:
                env[pn] = a
        for c in calls_through_helpers(res, g, pred, depth + 1):
            out.append(subst(c, env))
    return out


def seeks_through_get_offset(fn) -> bool:
    """ProtocolResponse.seek: self._bytes.seek(X) where one alternative of X (conditional expression, local) is
    <command>.get_offset(<the address parameter>)."""
    local = single_assignments(fn.node)
    param = fn.params[-1]
    for n in walk_no_lambda(fn.node):
        if isinstance(n, ast.Call) and (call_chain(n) or ())[-1:] == ("seek",) and len(n.args) == 1 and (call_chain(n) or ())[:2] == ("self", "_bytes"):
            cands = list(alternatives(n.args[0], local))
            # a local assigned in both arms of an if (position = address / position = command.get_offset(address))
            for _ in range(3):
                more = []
                for a in cands:
                    if isinstance(a, ast.Name) and a.id not in local and a.id != param:
                        for st in ast.walk(fn.node):
                            if isinstance(st, ast.Assign) and len(st.targets) == 1 and isinstance(st.targets[0], ast.Name) and st.targets[0].id == a.id:
                                more += list(alternatives(st.value, local))
                cands += [m for m in more if not any(m is c for c in cands)]
            for a in cands:
                if isinstance(a, ast.Call) and (call_chain(a) or ())[-1:] == ("get_offset",) and len(a.args) == 1 \
                        and isinstance(a.args[0], ast.Name) and a.args[0].id == param and "command" in (call_chain(a) or ()):
                    return True
    return False


def reaching_assignment(fn_node: ast.AST, name: str, use: ast.AST) -> Optional[ast.expr]:
    """The value of the one assignment ``name = <value>`` that reaches *use* on every path, found lexically: the nearest
    preceding top-level assignment in the block holding the use or in an enclosing block, with no compound statement in
    between that may assign the name.  None when there is no such single assignment (parameters, loops, joins)."""
    def holds(st):
        return any(x is use for x in ast.walk(st))

    def assigns(st):
        return any(isinstance(x, ast.Name) and isinstance(x.ctx, (ast.Store, ast.Del)) and x.id == name for x in ast.walk(st)) or \
            any(isinstance(x, ast.ExceptHandler) and x.name == name for x in ast.walk(st))

    def search(block):
        for i, st in enumerate(block):
            if not holds(st):
                continue
            inner = None
            for fld in ("body", "orelse", "finalbody"):
                sub = getattr(st, fld, None)
                if isinstance(sub, list) and any(holds(x) for x in sub if isinstance(x, ast.AST)):
                    if isinstance(st, (ast.For, ast.AsyncFor, ast.While)) and assigns(st):
                        return "unknown"      # a later iteration may have assigned it
                    inner = search(sub)
            for h in getattr(st, "handlers", []) or []:
                if any(holds(x) for x in h.body):
                    if h.name == name or any(assigns(x) for x in st.body):
                        return "unknown"      # the try body may have assigned it before raising
                    inner = search(h.body)
            if inner is not None:
                return inner
            # not found deeper (or the use is in this very statement): look back in this block
            for prev in reversed(block[:i]):
                if isinstance(prev, ast.Assign) and len(prev.targets) == 1 and isinstance(prev.targets[0], ast.Name) and prev.targets[0].id == name:
                    return prev.value
                if isinstance(prev, ast.AnnAssign) and isinstance(prev.target, ast.Name) and prev.target.id == name and prev.value is not None:
                    return prev.value
                if assigns(prev):
                    return "unknown"
            return None
        return None
    r = search(list(getattr(fn_node, "body", [])))
    return None if isinstance(r, str) else r
