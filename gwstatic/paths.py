"""Syntax-directed path enumeration of one function body.

A *path* is the sequence of events one execution may produce, together with
how it ends (return / raise / fall off the end).  Conditions are decomposed
into their atoms (short-circuit order), exceptions may start at every call /
await / raise the *oracle* names and are routed through ``try`` handlers by
class matching, ``finally`` blocks are replayed on every exit, loops are
unrolled a bounded number of times.  Loop-free bodies (all the protocol and
inverter methods the rules look at) are enumerated exactly; feasibility of a
path is left to the rule that replays it with its own abstract state.
"""
from __future__ import annotations

import ast
from typing import Callable, Iterable, List, Optional, Sequence, Tuple

from . import AnalysisError
from .model import Program, FuncInfo, ClassInfo, node_src, norm


class Ev:
    __slots__ = ("kind", "node", "data")

    def __init__(self, kind: str, node, data=None):
        self.kind, self.node, self.data = kind, node, data

    def __repr__(self):
        if self.kind == "test":
            return "[%s is %s]" % (norm(self.node), self.data)
        if self.kind in ("raise", "catch"):
            return "<%s %s @%d>" % (self.kind, Program.exc_name(self.data), getattr(self.node, "lineno", 0))
        if self.kind == "iter":
            return "<for#%s @%d>" % (self.data, self.node.lineno)
        if self.kind in ("finally", "return"):
            return "<%s @%d>" % (self.kind, self.node.lineno)
        return "%s:%s" % (self.kind, norm(self.node)[:70])


class Path:
    __slots__ = ("events", "end", "end_data", "end_node")

    def __init__(self, events: Tuple[Ev, ...], end: str, end_data=None, end_node=None):
        self.events = events
        self.end = end            # 'return' | 'raise' | 'fall'
        self.end_data = end_data  # exception class for 'raise'
        self.end_node = end_node  # Return node / origin node of the exception

    def describe(self, maxlen: int = 14) -> str:
        evs = [repr(e) for e in self.events if e.kind in ("test", "raise", "catch", "iter")]
        if len(evs) > maxlen:
            evs = evs[:maxlen] + ["..."]
        tail = self.end
        if self.end == "raise":
            tail = "raise %s" % Program.exc_name(self.end_data)
        elif self.end == "return" and self.end_node is not None:
            tail = "return@%d" % self.end_node.lineno
        return " ".join(evs) + " => " + tail

    def index_of(self, pred: Callable[[Ev], bool], start: int = 0) -> int:
        for i in range(start, len(self.events)):
            if pred(self.events[i]):
                return i
        return -1


Oracle = Callable[[ast.AST, FuncInfo], Iterable]


def no_raise(node, fn):
    return ()


def eval_order(expr: ast.AST) -> List[ast.AST]:
    """Call and Await nodes of an expression in evaluation order (bodies of lambdas excluded)."""
    out: List[ast.AST] = []

    def visit(n):
        if isinstance(n, ast.Lambda):
            return
        if isinstance(n, ast.Call):
            visit(n.func)
            for a in n.args:
                visit(a)
            for k in n.keywords:
                visit(k.value)
            out.append(n)
            return
        if isinstance(n, ast.Await):
            visit(n.value)
            out.append(n)
            return
        for c in ast.iter_child_nodes(n):
            visit(c)

    visit(expr)
    return out


def cond_paths(test: ast.expr) -> List[Tuple[Tuple[Tuple[ast.expr, bool], ...], bool]]:
    """Short-circuit evaluation of a condition: [(((atom, outcome), ...), result), ...]."""
    if isinstance(test, ast.UnaryOp) and isinstance(test.op, ast.Not):
        return [(atoms, not res) for atoms, res in cond_paths(test.operand)]
    if isinstance(test, ast.BoolOp):
        is_and = isinstance(test.op, ast.And)
        acc: List[Tuple[Tuple, bool]] = [((), is_and)]
        for v in test.values:
            new: List[Tuple[Tuple, bool]] = []
            sub = cond_paths(v)
            for atoms, res in acc:
                if res != is_and:          # already decided (short circuit)
                    new.append((atoms, res))
                    continue
                for a2, r2 in sub:
                    new.append((atoms + a2, r2))
            acc = new
        return acc
    return [(((test, True),), True), (((test, False),), False)]


class Enumerator:
    def __init__(self, prog: Program, fn: FuncInfo, oracle: Oracle = no_raise, unroll: int = 2,
                 max_paths: int = 50000):
        self.prog, self.fn, self.oracle = prog, fn, oracle
        self.unroll = unroll
        self.max_paths = max_paths
        self._count = 0

    # outcome: ('fall',) | ('return', node) | ('raise', cls, origin) | ('break',) | ('continue',)
    def paths(self) -> List[Path]:
        out: List[Path] = []
        for evs, oc in self._block(self.fn.body, (), {}):
            if oc[0] == "fall":
                out.append(Path(evs, "fall"))
            elif oc[0] == "return":
                out.append(Path(evs, "return", None, oc[1]))
            elif oc[0] == "raise":
                out.append(Path(evs, "raise", oc[1], oc[2]))
            else:
                raise AnalysisError("break/continue outside loop in %s" % self.fn.qualname)
            if len(out) > self.max_paths:
                raise AnalysisError("more than %d paths in %s" % (self.max_paths, self.fn.qualname))
        return out

    # ----------------------------------------------------------- expressions
    def _expr(self, expr: Optional[ast.AST], evs: Tuple[Ev, ...]):
        """Yield (events, None) for normal completion and (events, ('raise', cls, origin)) for each exception."""
        if expr is None:
            yield evs, None
            return
        cur = evs
        for n in eval_order(expr):
            for exc in self.oracle(n, self.fn):
                yield cur + (Ev("raise", n, exc),), ("raise", exc, n)
            cur = cur + (Ev("await" if isinstance(n, ast.Await) else "call", n),)
        yield cur, None

    def _cond(self, test: ast.expr, evs: Tuple[Ev, ...]):
        """Yield (events, result|None, raise_outcome|None)."""
        seen = set()
        for atoms, res in cond_paths(test):
            # atoms are evaluated in order; each may raise
            cur_list = [evs]
            prefix: Tuple = ()
            for atom, outcome in atoms:
                nxt = []
                for cur in cur_list:
                    for e2, oc in self._expr(atom, cur):
                        if oc is not None:
                            # report a raise only once per evaluated prefix (cond-paths share prefixes)
                            key = (prefix, id(oc[2]), id(oc[1]))
                            if key not in seen:
                                seen.add(key)
                                yield e2, None, oc
                        else:
                            nxt.append(e2 + (Ev("test", atom, outcome),))
                cur_list = nxt
                prefix = prefix + ((id(atom), outcome),)
            for cur in cur_list:
                yield cur, res, None

    # ------------------------------------------------------------ statements
    def _block(self, stmts: Sequence[ast.stmt], evs: Tuple[Ev, ...], hctx: dict):
        if not stmts:
            yield evs, ("fall",)
            return
        head, rest = stmts[0], stmts[1:]
        for e2, oc in self._stmt(head, evs, hctx):
            if oc[0] == "fall":
                yield from self._block(rest, e2, hctx)
            else:
                yield e2, oc

    def _raise_class(self, st: ast.Raise, hctx: dict):
        if st.exc is None:
            cur = hctx.get("__current__")
            if cur is None:
                raise AnalysisError("bare raise outside handler at %s" % self.fn.loc(st))
            return [cur]
        e = st.exc
        if isinstance(e, ast.Call):
            e = e.func
        if isinstance(e, ast.Name) and e.id in hctx:
            return [hctx[e.id]]
        try:
            return self.prog.resolve_exc_expr(self.fn.module, e)
        except AnalysisError:
            raise AnalysisError("cannot resolve raised class %s at %s" % (node_src(st), self.fn.loc(st)))

    def _stmt(self, st: ast.stmt, evs: Tuple[Ev, ...], hctx: dict):
        self._count += 1
        if self._count > 4000000:
            raise AnalysisError("path enumeration budget exceeded in %s" % self.fn.qualname)
        if isinstance(st, (ast.Expr, ast.Assign, ast.AugAssign, ast.AnnAssign, ast.Delete, ast.Assert)):
            val = st.value if not isinstance(st, (ast.Delete, ast.Assert)) else (st.test if isinstance(st, ast.Assert) else None)
            for e2, oc in self._expr(val, evs):
                if oc is not None:
                    yield e2, oc
                else:
                    # targets may contain calls too (rare) - ignored; the statement's own effect:
                    yield e2 + (Ev("stmt", st),), ("fall",)
            return
        if isinstance(st, ast.Return):
            for e2, oc in self._expr(st.value, evs):
                if oc is not None:
                    yield e2, oc
                else:
                    yield e2 + (Ev("return", st),), ("return", st)
            return
        if isinstance(st, ast.Raise):
            for e2, oc in self._expr(st.exc, evs):
                if oc is not None:
                    yield e2, oc
                else:
                    for cls in self._raise_class(st, hctx):
                        yield e2 + (Ev("raise", st, cls),), ("raise", cls, st)
            return
        if isinstance(st, ast.If):
            for e2, res, oc in self._cond(st.test, evs):
                if oc is not None:
                    yield e2, oc
                elif res:
                    yield from self._block(st.body, e2, hctx)
                else:
                    yield from self._block(st.orelse, e2, hctx)
            return
        if isinstance(st, ast.While):
            yield from self._while(st, evs, hctx, 0)
            return
        if isinstance(st, (ast.For, ast.AsyncFor)):
            for e2, oc in self._expr(st.iter, evs):
                if oc is not None:
                    yield e2, oc
                else:
                    yield from self._for(st, e2, hctx, 0)
            return
        if isinstance(st, (ast.With, ast.AsyncWith)):
            def items(i, cur):
                if i == len(st.items):
                    yield from self._block(st.body, cur, hctx)
                    return
                for e2, oc in self._expr(st.items[i].context_expr, cur):
                    if oc is not None:
                        yield e2, oc
                    else:
                        yield from items(i + 1, e2)
            yield from items(0, evs)
            return
        if isinstance(st, ast.Try):
            yield from self._try(st, evs, hctx)
            return
        if isinstance(st, ast.Break):
            yield evs, ("break",)
            return
        if isinstance(st, ast.Continue):
            yield evs, ("continue",)
            return
        if isinstance(st, (ast.Pass, ast.Global, ast.Nonlocal, ast.Import, ast.ImportFrom, ast.FunctionDef,
                           ast.AsyncFunctionDef, ast.ClassDef)):
            yield evs + (Ev("stmt", st),), ("fall",)
            return
        raise AnalysisError("statement kind %s not modelled (%s)" % (type(st).__name__, self.fn.loc(st)))

    def _while(self, st: ast.While, evs, hctx, i):
        for e2, res, oc in self._cond(st.test, evs):
            if oc is not None:
                yield e2, oc
            elif not res:
                yield from self._block(st.orelse, e2, hctx)
            elif i >= self.unroll:
                continue  # longer iterations are not explored
            else:
                for e3, oc3 in self._block(st.body, e2, hctx):
                    if oc3[0] in ("fall", "continue"):
                        yield from self._while(st, e3, hctx, i + 1)
                    elif oc3[0] == "break":
                        yield e3, ("fall",)
                    else:
                        yield e3, oc3

    def _for(self, st, evs, hctx, i):
        # exhausted after i iterations
        yield from self._block(st.orelse, evs + (Ev("iter", st, "exit%d" % i),), hctx)
        if i >= self.unroll:
            return
        e2 = evs + (Ev("iter", st, i),)
        for e3, oc3 in self._block(st.body, e2, hctx):
            if oc3[0] in ("fall", "continue"):
                yield from self._for(st, e3, hctx, i + 1)
            elif oc3[0] == "break":
                yield e3, ("fall",)
            else:
                yield e3, oc3

    def match_handler(self, exc, handler: ast.ExceptHandler) -> str:
        """'yes' | 'maybe' | 'no'"""
        if handler.type is None:
            return "yes"
        hs = self.prog.resolve_exc_expr(self.fn.module, handler.type)
        if any(self.prog.is_subclass(exc, h) for h in hs):
            return "yes"
        if any(self.prog.is_subclass(h, exc) for h in hs):
            return "maybe"
        return "no"

    def _try(self, st: ast.Try, evs, hctx):
        def with_finally(e, oc):
            if not st.finalbody:
                yield e, oc
                return
            e = e + (Ev("finally", st),)
            for e2, oc2 in self._block(st.finalbody, e, hctx):
                if oc2[0] == "fall":
                    yield e2, oc
                else:
                    yield e2, oc2

        for e1, oc1 in self._block(st.body, evs, hctx):
            if oc1[0] == "fall":
                for e2, oc2 in self._block(st.orelse, e1, hctx):
                    yield from with_finally(e2, oc2)
                continue
            if oc1[0] != "raise":
                yield from with_finally(e1, oc1)
                continue
            exc, origin = oc1[1], oc1[2]
            caught = False
            for h in st.handlers:
                m = self.match_handler(exc, h)
                if m == "no":
                    continue
                narrowed = exc
                if m == "maybe":
                    hs = [x for x in self.prog.resolve_exc_expr(self.fn.module, h.type) if self.prog.is_subclass(x, exc)]
                    narrowed = hs[0]
                h2 = dict(hctx)
                h2["__current__"] = narrowed
                if h.name:
                    h2[h.name] = narrowed
                e2 = e1 + (Ev("catch", h, narrowed),)
                for e3, oc3 in self._block(h.body, e2, h2):
                    yield from with_finally(e3, oc3)
                if m == "yes":
                    caught = True
                    break
            if not caught:
                yield from with_finally(e1, oc1)


def enumerate_paths(prog: Program, fn: FuncInfo, oracle: Oracle = no_raise, unroll: int = 2) -> List[Path]:
    return Enumerator(prog, fn, oracle, unroll).paths()
