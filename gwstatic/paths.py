"""Syntax-directed path enumeration of one function body.

A *path* is the sequence of events one execution may produce, together with
how it ends (return / raise / fall off the end).  Conditions are decomposed
into their atoms (short-circuit order), exceptions may start at every call /
await / raise the *oracle* names and are routed through ``try`` handlers by
class matching, ``finally`` blocks are replayed on every exit, loops are
unrolled a bounded number of times.  Loop-free bodies (all the protocol and
inverter methods the rules look at) are enumerated exactly; feasibility of a
path is left to the rule that replays it with its own abstract state.
"""
from __future__ import annotations

import ast
from typing import Callable, Dict, Iterable, List, Optional, Sequence, Tuple

from . import AnalysisError
from .model import Program, FuncInfo, ClassInfo, node_src, norm


class Ev:
    __slots__ = ("kind", "node", "data")

    def __init__(self, kind: str, node, data=None):
        self.kind, self.node, self.data = kind, node, data

    def __repr__(self):
        if self.kind == "test":
            return "[%s is %s]" % (norm(self.node), self.data)
        if self.kind in ("raise", "catch"):
            return "<%s %s @%d>" % (self.kind, Program.exc_name(self.data), getattr(self.node, "lineno", 0))
        if self.kind == "iter":
            return "<for#%s @%d>" % (self.data, self.node.lineno)
        if self.kind in ("finally", "return", "iret"):
            return "<%s @%d>" % (self.kind, self.node.lineno)
        if self.kind in ("enter", "exit"):
            return "<%s %s>" % (self.kind, self.data.short)
        return "%s:%s" % (self.kind, norm(self.node)[:70])


class Path:
    __slots__ = ("events", "end", "end_data", "end_node")

    def __init__(self, events: Tuple[Ev, ...], end: str, end_data=None, end_node=None):
        self.events = events
        self.end = end            # 'return' | 'raise' | 'fall'
        self.end_data = end_data  # exception class for 'raise'
        self.end_node = end_node  # Return node / origin node of the exception

    def describe(self, maxlen: int = 14) -> str:
        evs = [repr(e) for e in self.events if e.kind in ("test", "raise", "catch", "iter", "enter", "exit")]
        if len(evs) > maxlen:
            evs = evs[:maxlen] + ["..."]
        tail = self.end
        if self.end == "raise":
            tail = "raise %s" % Program.exc_name(self.end_data)
        elif self.end == "return" and self.end_node is not None:
            tail = "return@%d" % self.end_node.lineno
        return " ".join(evs) + " => " + tail

    def fn_at(self, i: int, root: FuncInfo) -> FuncInfo:
        """The function whose body produced event i (the root function, or an inlined helper)."""
        stack = [root]
        for ev in self.events[:i + 1]:
            if ev.kind == "enter":
                stack.append(ev.data)
            elif ev.kind == "exit" and len(stack) > 1:
                stack.pop()
        if self.events and i < len(self.events) and self.events[i].kind == "exit":
            return self.events[i].data
        return stack[-1]

    def inlined_return(self, call: ast.AST, before: Optional[int] = None) -> Optional[Tuple[int, ast.expr]]:
        """For a call whose callee was spliced into this path: (index of its 'iret' event, the returned expression) of
        the activation that ended last before event *before*; None when the call was not inlined / returned nothing."""
        hi = len(self.events) if before is None else before
        k = next((k for k in range(hi - 1, -1, -1) if self.events[k].kind == "exit" and self.events[k].node is call), None)
        if k is None:
            return None
        d = 0
        for m in range(k - 1, -1, -1):
            e = self.events[m]
            if e.kind == "exit":
                d += 1
            elif e.kind == "enter":
                if d == 0:
                    return None
                d -= 1
            elif e.kind == "iret" and d == 0:
                return (m, e.node.value) if e.node.value is not None else None
        return None

    def index_of(self, pred: Callable[[Ev], bool], start: int = 0) -> int:
        for i in range(start, len(self.events)):
            if pred(self.events[i]):
                return i
        return -1


Oracle = Callable[[ast.AST, FuncInfo], Iterable]


def no_raise(node, fn):
    return ()


def eval_order(expr: ast.AST) -> List[ast.AST]:
    """Call and Await nodes of an expression in evaluation order (bodies of lambdas excluded)."""
    out: List[ast.AST] = []

    def visit(n):
        if isinstance(n, ast.Lambda):
            return
        if isinstance(n, ast.Call):
            visit(n.func)
            for a in n.args:
                visit(a)
            for k in n.keywords:
                visit(k.value)
            out.append(n)
            return
        if isinstance(n, ast.Await):
            visit(n.value)
            out.append(n)
            return
        for c in ast.iter_child_nodes(n):
            visit(c)

    visit(expr)
    return out


_LIFTED: Dict[int, Tuple[ast.stmt, Optional[ast.If]]] = {}


def _first_ifexp(e: ast.AST):
    """The conditional expression evaluated first in *e* when nothing with an effect (a call, an await) is evaluated
    before its test and it is not itself evaluated conditionally; 'blocked' when a call comes first; None when *e* has
    no such expression."""
    if isinstance(e, ast.IfExp):
        return e
    if isinstance(e, (ast.Lambda, ast.Constant, ast.Name)):
        return None
    if isinstance(e, (ast.ListComp, ast.SetComp, ast.DictComp, ast.GeneratorExp, ast.Yield, ast.YieldFrom)):
        return "blocked"
    if isinstance(e, ast.BoolOp):
        r = _first_ifexp(e.values[0])
        return r if r is not None else "blocked"
    for c in ast.iter_child_nodes(e):
        if isinstance(c, (ast.expr, ast.keyword)):
            r = _first_ifexp(c)
            if r is not None:
                return r
    if isinstance(e, (ast.Call, ast.Await)):
        return "blocked"
    return None


def _replace_node(node, target, repl):
    """*node* with *target* replaced by *repl*: only the spine is copied, every other subtree is shared."""
    import copy
    if node is target:
        return repl
    new = None
    for field, value in ast.iter_fields(node):
        if isinstance(value, ast.AST):
            r = _replace_node(value, target, repl)
            if r is not value:
                new = new or copy.copy(node)
                setattr(new, field, r)
        elif isinstance(value, list):
            lst = [_replace_node(v, target, repl) if isinstance(v, ast.AST) else v for v in value]
            if any(a is not b for a, b in zip(lst, value)):
                new = new or copy.copy(node)
                setattr(new, field, lst)
    return new or node


def lift_ifexp(st: ast.stmt) -> Optional[ast.If]:
    """``x = a if c else b`` (also as a returned value, an argument, ...) as ``if c: x = a`` / ``else: x = b``: the arms of a
    conditional expression are alternatives, not a sequence.  Only when nothing with an effect precedes the test."""
    hit = _LIFTED.get(id(st))
    if hit is not None and hit[0] is st:
        return hit[1]
    res = None
    if isinstance(st, (ast.Expr, ast.Assign, ast.AugAssign, ast.AnnAssign, ast.Return)) and st.value is not None:
        ie = _first_ifexp(st.value)
        if isinstance(ie, ast.IfExp):
            res = ast.If(test=ie.test, body=[_replace_node(st, ie, ie.body)], orelse=[_replace_node(st, ie, ie.orelse)])
            ast.copy_location(res, st)
    _LIFTED[id(st)] = (st, res)
    return res


def cond_paths(test: ast.expr) -> List[Tuple[Tuple[Tuple[ast.expr, bool], ...], bool]]:
    """Short-circuit evaluation of a condition: [(((atom, outcome), ...), result), ...]."""
    if isinstance(test, ast.UnaryOp) and isinstance(test.op, ast.Not):
        return [(atoms, not res) for atoms, res in cond_paths(test.operand)]
    if isinstance(test, ast.BoolOp):
        is_and = isinstance(test.op, ast.And)
        acc: List[Tuple[Tuple, bool]] = [((), is_and)]
        for v in test.values:
            new: List[Tuple[Tuple, bool]] = []
            sub = cond_paths(v)
            for atoms, res in acc:
                if res != is_and:          # already decided (short circuit)
                    new.append((atoms, res))
                    continue
                for a2, r2 in sub:
                    new.append((atoms + a2, r2))
            acc = new
        return acc
    if isinstance(test, ast.Constant):
        return [(((test, bool(test.value)),), bool(test.value))]   # 'while True', a helper's 'return False'
    if isinstance(test, ast.Compare) and len(test.ops) > 1 and all(isinstance(c, (ast.Name, ast.Constant, ast.Attribute)) for c in test.comparators[:-1]):
        # a <= b <= c  ==  a <= b and b <= c  (the middle operand is evaluated once; it has no effect here)
        key = id(test)
        if key not in _CHAINED:
            parts, left = [], test.left
            for op, right in zip(test.ops, test.comparators):
                parts.append(ast.copy_location(ast.Compare(left=left, ops=[op], comparators=[right]), test))
                left = right
            _CHAINED[key] = (test, ast.copy_location(ast.BoolOp(op=ast.And(), values=parts), test))
        return cond_paths(_CHAINED[key][1])
    return [(((test, True),), True), (((test, False),), False)]


_CHAINED: Dict[int, Tuple[ast.expr, ast.expr]] = {}


# Inlining policy: (call node, calling function) -> package function whose body is spliced into the path, or None.
# Set once per run by core.Ctx: helpers that are not part of the pinned function inventory are inlined, so that the
# path rules see through "extract method" refactorings; the pinned functions keep their summaries.
DEFAULT_INLINE: List[Optional[Callable]] = [None]
# The protocol rules look at one concrete protocol class at a time (for ci in proto_classes(ctx)); while they do, this
# holds that class, and every path enumerated for a method that class inherits resolves self.<hook>() to its override.
CURRENT_SELF_CLS: List[Optional[ClassInfo]] = [None]
MAX_INLINE_DEPTH = 4


class Enumerator:
    def __init__(self, prog: Program, fn: FuncInfo, oracle: Oracle = no_raise, unroll: int = 2,
                 max_paths: int = 50000, inline="default", self_cls=None):
        self.prog, self.fn, self.oracle = prog, fn, oracle
        if self_cls is None and CURRENT_SELF_CLS[0] is not None and fn.cls is not None and not fn.is_lambda \
                and prog.is_subclass(CURRENT_SELF_CLS[0], fn.cls):
            self_cls = CURRENT_SELF_CLS[0]
        self.self_cls = self_cls      # concrete class of 'self' for this activation (None: any class inheriting fn)
        self.unroll = unroll
        self.max_paths = max_paths
        self._count = 0
        self.inline = DEFAULT_INLINE[0] if inline == "default" else inline

    def _fn(self, hctx: dict) -> FuncInfo:
        return hctx.get("__fn__", self.fn)

    def _inlinee(self, n: ast.AST, hctx: dict) -> Optional[FuncInfo]:
        if self.inline is None or not isinstance(n, ast.Call):
            return None
        stack = hctx.get("__stack__", (self.fn.qualname,))
        if len(stack) > MAX_INLINE_DEPTH:
            return None
        g = self.inline(n, self._fn(hctx), hctx.get("__selfcls__", self.self_cls))
        if g is None or g.qualname in stack:
            return None
        return g

    _BODY_CACHE: dict = {}

    def _callee_body(self, call: ast.Call, g: FuncInfo) -> List[ast.stmt]:
        """Body of the helper for this call site, with the parameters that receive a simple argument (name, attribute
        chain, constant, lambda) replaced by that argument - so that rules reading the nodes of the events see, e.g.,
        self._read_from_socket(self._READ_BATTERY_INFO) instead of self._read_from_socket(command)."""
        key = (id(call), id(g.node))
        hit = Enumerator._BODY_CACHE.get(key)
        if hit is not None and hit[0] is call:
            return hit[1]
        from .calls import arg_for
        from .astutil import subst
        stored = {n.id for n in ast.walk(g.node) if isinstance(n, ast.Name) and isinstance(n.ctx, (ast.Store, ast.Del))}
        for n in ast.walk(g.node):
            if isinstance(n, ast.ExceptHandler) and n.name:
                stored.add(n.name)
        names_g = stored | set(g.params)

        def simple(a) -> bool:
            if isinstance(a, (ast.Constant, ast.Name, ast.Lambda)):
                return True
            if isinstance(a, ast.Attribute):
                return simple(a.value)
            if isinstance(a, ast.JoinedStr):
                return all(isinstance(v, ast.Constant) for v in a.values)
            return False
        env = {}
        bound = g.cls is not None and not g.is_static and bool(g.params) and g.params[0] in ("self", "cls")
        for pn in g.params[1:] if bound else g.params:
            if pn in stored:
                continue
            a = arg_for(call, g, pn)
            if a is None or not simple(a):
                continue
            own = set()
            if isinstance(a, ast.Lambda):
                own = {x.arg for x in a.args.args + a.args.kwonlyargs}
            free = {n.id for n in ast.walk(a) if isinstance(n, ast.Name)} - own - {"self", "cls"}
            if free & (names_g - {pn}):
                continue      # the argument's names would be captured by the helper's own locals
            if isinstance(a, ast.Name) and a.id == pn:
                continue
            env[pn] = a
        body = [subst(st, env) for st in g.body] if env else list(g.body)
        Enumerator._BODY_CACHE[key] = (call, body)
        return body

    def _frame_ctx(self, call: ast.Call, g: FuncInfo, hctx: dict) -> dict:
        stack = hctx.get("__stack__", (self.fn.qualname,))
        same_self = isinstance(call.func, ast.Attribute) and isinstance(call.func.value, ast.Name) and call.func.value.id == "self" \
            and g.cls is not None and not g.is_static
        return {"__fn__": g, "__stack__": stack + (g.qualname,),
                "__selfcls__": hctx.get("__selfcls__", self.self_cls) if same_self else None}

    def _inline_body(self, call: ast.Call, g: FuncInfo, evs: Tuple[Ev, ...], hctx: dict):
        """Events of the helper's body between enter / exit markers.  Yields (events, outcome) with outcome
        ('done', return node | None) or ('raise', cls, origin)."""
        h2 = self._frame_ctx(call, g, hctx)
        start = evs + (Ev("enter", call, g),)
        for e2, oc in self._block(self._callee_body(call, g), start, h2):
            if oc[0] == "fall":
                yield e2 + (Ev("exit", call, g),), ("done", None)
            elif oc[0] == "return":
                yield e2 + (Ev("exit", call, g),), ("done", oc[1])
            elif oc[0] == "raise":
                yield e2 + (Ev("exit", call, g),), oc
            else:
                raise AnalysisError("break/continue outside loop in %s" % g.qualname)

    # outcome: ('fall',) | ('return', node) | ('raise', cls, origin) | ('break',) | ('continue',)
    def paths(self) -> List[Path]:
        out: List[Path] = []
        for evs, oc in self._block(self.fn.body, (), {}):  # hctx: handler variables, plus __fn__/__stack__ inside inlined helpers
            if oc[0] == "fall":
                out.append(Path(evs, "fall"))
            elif oc[0] == "return":
                out.append(Path(evs, "return", None, oc[1]))
            elif oc[0] == "raise":
                out.append(Path(evs, "raise", oc[1], oc[2]))
            else:
                raise AnalysisError("break/continue outside loop in %s" % self.fn.qualname)
            if len(out) > self.max_paths:
                raise AnalysisError("more than %d paths in %s" % (self.max_paths, self.fn.qualname))
        return out

    # ----------------------------------------------------------- expressions
    def _expr(self, expr: Optional[ast.AST], evs: Tuple[Ev, ...], hctx: dict):
        """Yield (events, None) for normal completion and (events, ('raise', cls, origin)) for each exception."""
        if expr is None:
            yield evs, None
            return
        yield from self._nodes(eval_order(expr), 0, evs, hctx, set())

    def _nodes(self, nodes: List[ast.AST], i: int, cur: Tuple[Ev, ...], hctx: dict, inlined: set):
        fn = self._fn(hctx)
        while i < len(nodes):
            n = nodes[i]
            g = self._inlinee(n, hctx)
            if g is not None:
                cur = cur + (Ev("call", n),)
                for e2, oc in self._inline_body(n, g, cur, hctx):
                    if oc[0] == "raise":
                        yield e2, oc
                    else:
                        yield from self._nodes(nodes, i + 1, e2, hctx, inlined | {id(n)})
                return
            if isinstance(n, ast.Await) and id(n.value) in inlined:
                cur = cur + (Ev("await", n),)      # the coroutine's body was spliced in at the call
                i += 1
                continue
            for exc in self.oracle(n, fn):
                yield cur + (Ev("raise", n, exc),), ("raise", exc, n)
            cur = cur + (Ev("await" if isinstance(n, ast.Await) else "call", n),)
            i += 1
        yield cur, None

    def _atom(self, atom: ast.expr, outcome: bool, evs: Tuple[Ev, ...], hctx: dict):
        """Evaluate one atom of a condition towards *outcome*.  A call to an inlined helper is decided by the helper's
        own return expression (its atoms appear as test events of the helper's frame)."""
        call = atom.value if isinstance(atom, ast.Await) else atom
        g = self._inlinee(call, hctx)
        if g is None:
            for e2, oc in self._expr(atom, evs, hctx):
                yield (e2, oc) if oc is not None else (e2 + (Ev("test", atom, outcome),), None)
            return
        pre = [x for x in eval_order(call) if x is not call]
        for e1, oc1 in self._nodes(pre, 0, evs, hctx, set()):
            if oc1 is not None:
                yield e1, oc1
                continue
            e1 = e1 + (Ev("call", call),)
            h2 = self._frame_ctx(call, g, hctx)
            for e2, oc2 in self._block(self._callee_body(call, g), e1 + (Ev("enter", call, g),), h2):
                tail = (Ev("exit", call, g),) + ((Ev("await", atom),) if isinstance(atom, ast.Await) else ()) + (Ev("test", atom, outcome),)
                if oc2[0] == "raise":
                    yield e2 + (Ev("exit", call, g),), oc2
                elif oc2[0] == "fall" or (oc2[0] == "return" and oc2[1].value is None):
                    if outcome is False:
                        yield e2 + tail, None
                elif oc2[0] == "return":
                    # the Return's own expression was evaluated (calls, raises) by _stmt; decide its truth value
                    e2 = e2[:-1] if e2 and e2[-1].kind == "iret" and e2[-1].node is oc2[1] else e2
                    for e3, res, oc3 in self._cond(oc2[1].value, e2, h2, evaluate=False):
                        if oc3 is not None:
                            yield e3 + (Ev("exit", call, g),), oc3
                        elif res == outcome:
                            yield e3 + (Ev("iret", oc2[1]),) + tail, None
                else:
                    raise AnalysisError("break/continue outside loop in %s" % g.qualname)

    def _cond(self, test: ast.expr, evs: Tuple[Ev, ...], hctx: dict, evaluate: bool = True):
        """Yield (events, result|None, raise_outcome|None).  evaluate=False: the calls of the expression were already
        evaluated (a helper's return expression), only the truth value is decided."""
        seen = set()
        for atoms, res in cond_paths(test):
            # atoms are evaluated in order; each may raise
            cur_list = [evs]
            prefix: Tuple = ()
            for atom, outcome in atoms:
                nxt = []
                for cur in cur_list:
                    if not evaluate:
                        nxt.append(cur + (Ev("test", atom, outcome),))
                        continue
                    for e2, oc in self._atom(atom, outcome, cur, hctx):
                        if oc is not None:
                            # report a raise only once per evaluated prefix (cond-paths share prefixes)
                            key = (prefix, id(oc[2]), id(oc[1]), tuple(id(x.node) for x in e2[len(cur):] if x.kind == "test"))
                            if key not in seen:
                                seen.add(key)
                                yield e2, None, oc
                        else:
                            nxt.append(e2)
                cur_list = nxt
                prefix = prefix + ((id(atom), outcome),)
            for cur in cur_list:
                yield cur, res, None

    # ------------------------------------------------------------ statements
    def _block(self, stmts: Sequence[ast.stmt], evs: Tuple[Ev, ...], hctx: dict):
        if not stmts:
            yield evs, ("fall",)
            return
        head, rest = stmts[0], stmts[1:]
        for e2, oc in self._stmt(head, evs, hctx):
            if oc[0] == "fall":
                yield from self._block(rest, e2, hctx)
            else:
                yield e2, oc

    def _raise_class(self, st: ast.Raise, hctx: dict):
        if st.exc is None:
            cur = hctx.get("__current__")
            if cur is None:
                raise AnalysisError("bare raise outside handler at %s" % self._fn(hctx).loc(st))
            return [cur]
        e = st.exc
        if isinstance(e, ast.Call):
            e = e.func
        if isinstance(e, ast.Name) and e.id in hctx:
            return [hctx[e.id]]
        try:
            return self.prog.resolve_exc_expr(self._fn(hctx).module, e)
        except AnalysisError:
            raise AnalysisError("cannot resolve raised class %s at %s" % (node_src(st), self._fn(hctx).loc(st)))

    def _stmt(self, st: ast.stmt, evs: Tuple[Ev, ...], hctx: dict):
        self._count += 1
        if self._count > 4000000:
            raise AnalysisError("path enumeration budget exceeded in %s" % self.fn.qualname)
        lifted = lift_ifexp(st)
        if lifted is not None:
            st = lifted
        if isinstance(st, (ast.Expr, ast.Assign, ast.AugAssign, ast.AnnAssign, ast.Delete, ast.Assert)):
            val = st.value if not isinstance(st, (ast.Delete, ast.Assert)) else (st.test if isinstance(st, ast.Assert) else None)
            for e2, oc in self._expr(val, evs, hctx):
                if oc is not None:
                    yield e2, oc
                else:
                    # targets may contain calls too (rare) - ignored; the statement's own effect:
                    yield e2 + (Ev("stmt", st),), ("fall",)
            return
        if isinstance(st, ast.Return):
            for e2, oc in self._expr(st.value, evs, hctx):
                if oc is not None:
                    yield e2, oc
                else:
                    yield e2 + (Ev("iret" if "__fn__" in hctx else "return", st),), ("return", st)
            return
        if isinstance(st, ast.Raise):
            for e2, oc in self._expr(st.exc, evs, hctx):
                if oc is not None:
                    yield e2, oc
                else:
                    for cls in self._raise_class(st, hctx):
                        yield e2 + (Ev("raise", st, cls),), ("raise", cls, st)
            return
        if isinstance(st, ast.If):
            for e2, res, oc in self._cond(st.test, evs, hctx):
                if oc is not None:
                    yield e2, oc
                elif res:
                    yield from self._block(st.body, e2, hctx)
                else:
                    yield from self._block(st.orelse, e2, hctx)
            return
        if isinstance(st, ast.While):
            yield from self._while(st, evs, hctx, 0)
            return
        if isinstance(st, (ast.For, ast.AsyncFor)):
            for e2, oc in self._expr(st.iter, evs, hctx):
                if oc is not None:
                    yield e2, oc
                else:
                    yield from self._for(st, e2, hctx, 0)
            return
        if isinstance(st, (ast.With, ast.AsyncWith)):
            # with contextlib.suppress(E1, E2): body   ==   try: body / except (E1, E2): pass
            sup = []
            for it in st.items:
                c = it.context_expr
                if isinstance(c, ast.Call) and norm(c.func) in ("suppress", "contextlib.suppress"):
                    for a in c.args:
                        try:
                            sup.extend(self.prog.resolve_exc_expr(self._fn(hctx).module, a))
                        except AnalysisError:
                            raise AnalysisError("cannot resolve suppressed class %s at %s" % (norm(a), self._fn(hctx).loc(st)))

            def items(i, cur):
                if i == len(st.items):
                    for e9, oc9 in self._block(st.body, cur, hctx):
                        if sup and oc9[0] == "raise" and any(self.prog.is_subclass(oc9[1], s_) for s_ in sup):
                            yield e9 + (Ev("catch", ast.ExceptHandler(type=None, name=None, body=[], lineno=st.lineno, col_offset=0), oc9[1]),), ("fall",)
                        else:
                            yield e9, oc9
                    return
                for e2, oc in self._expr(st.items[i].context_expr, cur, hctx):
                    if oc is not None:
                        yield e2, oc
                    else:
                        yield from items(i + 1, e2)
            yield from items(0, evs)
            return
        if isinstance(st, ast.Try):
            yield from self._try(st, evs, hctx)
            return
        if isinstance(st, ast.Break):
            yield evs, ("break",)
            return
        if isinstance(st, ast.Continue):
            yield evs, ("continue",)
            return
        if isinstance(st, (ast.Pass, ast.Global, ast.Nonlocal, ast.Import, ast.ImportFrom, ast.FunctionDef,
                           ast.AsyncFunctionDef, ast.ClassDef)):
            yield evs + (Ev("stmt", st),), ("fall",)
            return
        raise AnalysisError("statement kind %s not modelled (%s)" % (type(st).__name__, self._fn(hctx).loc(st)))

    def _while(self, st: ast.While, evs, hctx, i):
        for e2, res, oc in self._cond(st.test, evs, hctx):
            if oc is not None:
                yield e2, oc
            elif not res:
                yield from self._block(st.orelse, e2, hctx)
            elif i >= self.unroll:
                continue  # longer iterations are not explored
            else:
                for e3, oc3 in self._block(st.body, e2, hctx):
                    if oc3[0] in ("fall", "continue"):
                        yield from self._while(st, e3, hctx, i + 1)
                    elif oc3[0] == "break":
                        yield e3, ("fall",)
                    else:
                        yield e3, oc3

    _LOOP_CACHE: dict = {}

    def _literal_iter(self, st, fn: FuncInfo):
        """The literal tuple / list a for loop iterates over: written in place, or a local bound exactly once to one."""
        if not isinstance(st, ast.For):
            return None
        it = st.iter
        if isinstance(it, ast.Name) and not fn.is_lambda:
            from .astutil import single_assignments
            it = single_assignments(fn.node).get(it.id, it)
            if isinstance(it, (ast.Tuple, ast.List)):
                # the elements must still mean the same when the loop runs: no name of theirs is rebound in the function
                stored = {n.id for n in ast.walk(fn.node) if isinstance(n, ast.Name) and isinstance(n.ctx, (ast.Store, ast.Del))}
                if {n.id for n in ast.walk(it) if isinstance(n, ast.Name)} & stored:
                    return None
        if isinstance(it, ast.Name) and not fn.is_lambda:
            # a module-level constant table: for mode, value, ... in _WORK_MODE_STEPS
            b = self.prog.lookup(fn.module, it.id)
            if b and b[0] == "const" and isinstance(b[1], (ast.Tuple, ast.List)) and not self.prog._is_global_mutated(self.prog._owner_module(fn.module, it.id), it.id) \
                    and it.id not in {n.id for n in ast.walk(fn.node) if isinstance(n, ast.Name) and isinstance(n.ctx, (ast.Store, ast.Del))}:
                it = b[1]
        if isinstance(it, (ast.Tuple, ast.List)) and len(it.elts) <= 8 and not any(isinstance(e, ast.Starred) for e in it.elts):
            return it
        return None

    def _loop_body(self, st: ast.For, lit, i: int) -> List[ast.stmt]:
        """Body of iteration i of a loop over a literal tuple, with the loop variable(s) replaced by the element's
        (simple) expressions: for flag, table in ((self._has_battery, self._sensors_battery), ...)."""
        key = (id(st), i)
        hit = Enumerator._LOOP_CACHE.get(key)
        if hit is not None and hit[0] is st:
            return hit[1]
        from .astutil import subst
        el = lit.elts[i]
        pairs = []
        if isinstance(st.target, ast.Name):
            pairs = [(st.target.id, el)]
        elif isinstance(st.target, (ast.Tuple, ast.List)) and isinstance(el, (ast.Tuple, ast.List)) and len(el.elts) == len(st.target.elts) \
                and all(isinstance(t, ast.Name) for t in st.target.elts):
            pairs = [(t.id, e) for t, e in zip(st.target.elts, el.elts)]
        stored = {n.id for b in st.body for n in ast.walk(b) if isinstance(n, ast.Name) and isinstance(n.ctx, (ast.Store, ast.Del))}

        def simple(a) -> bool:
            if isinstance(a, (ast.Constant, ast.Name)):
                return True
            if isinstance(a, ast.Attribute):
                return simple(a.value)
            if isinstance(a, (ast.Tuple, ast.List)):
                return all(simple(x) for x in a.elts)
            return False
        env = {n: e for n, e in pairs if n not in stored and simple(e)
               and not ({x.id for x in ast.walk(e) if isinstance(x, ast.Name)} & stored)}
        body = [subst(b, env) for b in st.body] if env else list(st.body)
        Enumerator._LOOP_CACHE[key] = (st, body)
        return body

    def _for(self, st, evs, hctx, i):
        # a literal tuple / list has a known number of iterations: no early exhaustion, unrolled completely (up to 8)
        lit = self._literal_iter(st, self._fn(hctx))
        exact = len(lit.elts) if lit is not None else None
        if exact is not None:
            if i == exact:
                yield from self._block(st.orelse, evs + (Ev("iter", st, "exit%d" % i),), hctx)
                return
        else:
            # exhausted after i iterations
            yield from self._block(st.orelse, evs + (Ev("iter", st, "exit%d" % i),), hctx)
            if i >= self.unroll:
                return
        e2 = evs + (Ev("iter", st, i),)
        for e3, oc3 in self._block(self._loop_body(st, lit, i) if exact is not None else st.body, e2, hctx):
            if oc3[0] in ("fall", "continue"):
                yield from self._for(st, e3, hctx, i + 1)
            elif oc3[0] == "break":
                yield e3, ("fall",)
            else:
                yield e3, oc3

    def match_handler(self, exc, handler: ast.ExceptHandler, hctx: Optional[dict] = None) -> str:
        """'yes' | 'maybe' | 'no'"""
        if handler.type is None:
            return "yes"
        hs = self.prog.resolve_exc_expr(self._fn(hctx or {}).module, handler.type)
        if any(self.prog.is_subclass(exc, h) for h in hs):
            return "yes"
        if any(self.prog.is_subclass(h, exc) for h in hs):
            return "maybe"
        return "no"

    def _try(self, st: ast.Try, evs, hctx):
        def with_finally(e, oc):
            if not st.finalbody:
                yield e, oc
                return
            e = e + (Ev("finally", st),)
            for e2, oc2 in self._block(st.finalbody, e, hctx):
                if oc2[0] == "fall":
                    yield e2, oc
                else:
                    yield e2, oc2

        for e1, oc1 in self._block(st.body, evs, hctx):
            if oc1[0] == "fall":
                for e2, oc2 in self._block(st.orelse, e1, hctx):
                    yield from with_finally(e2, oc2)
                continue
            if oc1[0] != "raise":
                yield from with_finally(e1, oc1)
                continue
            exc, origin = oc1[1], oc1[2]
            caught = False
            for h in st.handlers:
                m = self.match_handler(exc, h, hctx)
                if m == "no":
                    continue
                narrowed = exc
                if m == "maybe":
                    hs = [x for x in self.prog.resolve_exc_expr(self._fn(hctx).module, h.type) if self.prog.is_subclass(x, exc)]
                    narrowed = hs[0]
                h2 = dict(hctx)
                h2["__current__"] = narrowed
                if h.name:
                    h2[h.name] = narrowed
                e2 = e1 + (Ev("catch", h, narrowed),)
                for e3, oc3 in self._block(h.body, e2, h2):
                    yield from with_finally(e3, oc3)
                if m == "yes":
                    caught = True
                    break
            if not caught:
                yield from with_finally(e1, oc1)


def enumerate_paths(prog: Program, fn: FuncInfo, oracle: Oracle = no_raise, unroll: int = 2, self_cls=None) -> List[Path]:
    return Enumerator(prog, fn, oracle, unroll, self_cls=self_cls).paths()
