"""Symbolic expressions in linear normal form, facts and a small entailment check.

Index, offset and length expressions are normalised to  sum(c_i * term_i) + c0
so that ``expected - length``, ``-(length - expected)`` and a reordered sum are
the same thing, ``(data[p+1] << 8) + data[p]`` and
``int.from_bytes(data[p:p+2], 'little')`` denote the same term, and
``H << (16 + L)`` is recognisably *not* ``65536*H + L``.
No solver: entailment is difference-bound reasoning over the facts of one path.
"""
from __future__ import annotations

import ast
from fractions import Fraction
from typing import Any, Dict, List, Optional, Tuple

from .model import Program, Module, NotConst, EnumVal, UNKNOWN, node_src, norm


class Lin:
    """sum(coef * term) + const; terms are hashable tuples."""
    __slots__ = ("terms", "const")

    def __init__(self, terms: Optional[Dict[Tuple, Fraction]] = None, const=0):
        self.terms = {t: Fraction(c) for t, c in (terms or {}).items() if c != 0}
        self.const = Fraction(const)

    @staticmethod
    def of_term(t: Tuple) -> "Lin":
        return Lin({t: 1}, 0)

    @staticmethod
    def of_const(c) -> "Lin":
        return Lin({}, c)

    def is_const(self) -> bool:
        return not self.terms

    def __add__(self, o: "Lin") -> "Lin":
        t = dict(self.terms)
        for k, c in o.terms.items():
            t[k] = t.get(k, 0) + c
        return Lin(t, self.const + o.const)

    def __neg__(self) -> "Lin":
        return Lin({k: -c for k, c in self.terms.items()}, -self.const)

    def __sub__(self, o: "Lin") -> "Lin":
        return self + (-o)

    def scale(self, k) -> "Lin":
        return Lin({t: c * k for t, c in self.terms.items()}, self.const * k)

    def key(self) -> Tuple:
        return (tuple(sorted(((repr(t), str(c)) for t, c in self.terms.items()))), str(self.const))

    def __eq__(self, o):
        return isinstance(o, Lin) and self.terms == o.terms and self.const == o.const

    def __hash__(self):
        return hash(self.key())

    def single_term(self) -> Optional[Tuple]:
        if len(self.terms) == 1 and self.const == 0:
            (t, c), = self.terms.items()
            if c == 1:
                return t
        return None

    def __repr__(self):
        parts = []
        for t, c in sorted(self.terms.items(), key=lambda x: repr(x[0])):
            s = term_str(t)
            parts.append(s if c == 1 else ("-%s" % s if c == -1 else "%s*%s" % (c, s)))
        if self.const != 0 or not parts:
            parts.append(str(self.const))
        return " + ".join(parts).replace("+ -", "- ")


def term_str(t: Tuple) -> str:
    k = t[0]
    if k == "len":
        return "len(%s)" % term_str(t[1])
    if k == "var":
        return t[1]
    if k == "byte":
        return "%s[%s]" % (term_str(t[1]), t[2])
    if k == "slice":
        return "%s[%s:%s]" % (term_str(t[1]), "" if t[2] is None else t[2], "" if t[3] is None else t[3])
    if k == "int":
        return "int(%s,%s,%s)" % (term_str(t[1]), t[2], "s" if t[3] else "u")
    if k == "call":
        return "%s(%s)" % (t[1], ", ".join(term_str(a) if isinstance(a, tuple) else repr(a) for a in t[2]))
    if k == "attr":
        return "%s.%s" % (term_str(t[1]), t[2])
    if k == "lin":
        return "(%r)" % (t[1],)
    return repr(t)


class Sym:
    """Symbolic evaluator of expressions of one function, with an environment of local bindings."""

    def __init__(self, prog: Program, mod: Module, env: Optional[Dict[str, Any]] = None, locals_=()):
        self.prog, self.mod = prog, mod
        self.env: Dict[str, Any] = dict(env or {})
        self.locals = set(locals_)
        self._cenv = {n: UNKNOWN for n in self.locals}
        self.inline = None     # optional hook: (sym, call node) -> Lin | None, inlines small pure package helpers
        self.scope = ""        # prefix of unbound local names inside an inlined helper frame
        self.noscope: set = set()  # names shared with the calling frame (self of a helper called on self)
        self.call_values: Dict[int, Lin] = {}   # id(call node) -> value returned by a helper the path inlined

    @staticmethod
    def for_function(prog: Program, fn) -> "Sym":
        names = set()
        a = fn.node.args
        for x in a.posonlyargs + a.args + a.kwonlyargs:
            names.add(x.arg)
        if a.vararg:
            names.add(a.vararg.arg)
        if a.kwarg:
            names.add(a.kwarg.arg)
        for n in ast.walk(fn.node):
            if isinstance(n, ast.Name) and isinstance(n.ctx, (ast.Store, ast.Del)):
                names.add(n.id)
            elif isinstance(n, ast.ExceptHandler) and n.name:
                names.add(n.name)
        globs = set()
        for n in ast.walk(fn.node):
            if isinstance(n, ast.Global):
                names -= set(n.names)
                globs |= set(n.names)
        s = Sym(prog, fn.module, None, names)
        for g in globs:
            s._cenv[g] = UNKNOWN       # a module variable the function rebinds is not a constant
        return s

    def copy(self) -> "Sym":
        s = Sym(self.prog, self.mod, self.env, self.locals)
        s.inline = self.inline
        s.scope = self.scope
        s.noscope = self.noscope
        s.call_values = self.call_values
        return s

    def set_function(self, fn) -> None:
        """Switch constant evaluation / locals to another function (entering or leaving an inlined helper)."""
        other = Sym.for_function(self.prog, fn)
        self.mod, self.locals, self._cenv = other.mod, other.locals, other._cenv

    def bind(self, name: str, value: Any):
        self.env[name] = value

    # ------------------------------------------------------------------ terms
    def term(self, e: ast.expr) -> Tuple:
        """A term (atom) for an arbitrary expression."""
        l = self.lin(e)
        t = l.single_term()
        if t is not None:
            return t
        return ("lin", l)

    def lin(self, e: ast.expr) -> Lin:
        # constants first
        try:
            v = self.prog.consteval(e, self.mod, self._cenv)
            if isinstance(v, EnumVal):
                v = v.value
            if isinstance(v, bool):
                v = int(v)
            if isinstance(v, (int, Fraction)):
                return Lin.of_const(v)
            if isinstance(v, float) and v == int(v):
                return Lin.of_const(int(v))
            if isinstance(v, (str, bytes)) and isinstance(e, (ast.Name, ast.Attribute)):
                return Lin.of_term(("const", repr(v)))      # a named string constant is the literal it stands for
        except (NotConst, Exception):
            pass
        if isinstance(e, ast.Name):
            if e.id in self.env:
                v = self.env[e.id]
                return v if isinstance(v, Lin) else Lin.of_term(v)
            return Lin.of_term(("var", self.scope + e.id if e.id in self.locals and e.id not in self.noscope else e.id))
        if isinstance(e, ast.Attribute):
            if isinstance(e.value, ast.Name):
                k = "%s.%s" % (e.value.id, e.attr)
                if k in self.env:
                    v = self.env[k]
                    return v if isinstance(v, Lin) else Lin.of_term(v)
            return Lin.of_term(("attr", self.term(e.value), e.attr))
        if isinstance(e, ast.UnaryOp):
            if isinstance(e.op, ast.USub):
                return -self.lin(e.operand)
            if isinstance(e.op, ast.UAdd):
                return self.lin(e.operand)
        if isinstance(e, ast.BinOp):
            l, r = self.lin(e.left), self.lin(e.right)
            if isinstance(e.op, ast.Add):
                return _combine_bytes(l + r)
            if isinstance(e.op, ast.Sub):
                return l - r
            if isinstance(e.op, ast.Mult):
                if l.is_const():
                    return r.scale(l.const)
                if r.is_const():
                    return l.scale(r.const)
            if isinstance(e.op, ast.LShift) and r.is_const() and r.const >= 0:
                return l.scale(2 ** int(r.const))
            if isinstance(e.op, ast.BitOr):
                # a | b equals a + b when the operands occupy disjoint bit ranges (byte<<8 | byte)
                if _disjoint_bits(l, r):
                    return _combine_bytes(l + r)
            if isinstance(e.op, (ast.Div,)) and r.is_const() and r.const != 0:
                return l.scale(Fraction(1) / r.const)
            opname = type(e.op).__name__
            if opname == "Mod" and r.is_const() and r.const > 0 and r.const.denominator == 1 and (int(r.const) & (int(r.const) - 1)) == 0:
                opname, r = "BitAnd", Lin.of_const(int(r.const) - 1)   # x % 2**k == x & (2**k - 1)
            ops = (_t(l), _t(r))
            if opname in ("BitAnd", "BitOr", "BitXor", "Mult"):
                ops = tuple(sorted(ops, key=lambda t: (t[0] == "lin" and t[1].is_const(), repr(t))))
            return Lin.of_term(("call", opname, ops))
        if isinstance(e, ast.Subscript):
            base = self.term(e.value)
            if base[0] == "tuple" and not isinstance(e.slice, ast.Slice):
                ix = self.lin(e.slice)
                if ix.is_const() and ix.const.denominator == 1 and -len(base[1]) <= int(ix.const) < len(base[1]):
                    return base[1][int(ix.const)]
            if isinstance(e.slice, ast.Slice):
                lo = self.lin(e.slice.lower) if e.slice.lower is not None else None
                hi = self.lin(e.slice.upper) if e.slice.upper is not None else None
                return Lin.of_term(("slice", base, lo, hi))
            return Lin.of_term(("byte", base, self.lin(e.slice)))
        if isinstance(e, ast.Call):
            f = e.func
            if id(e) in self.call_values:
                return self.call_values[id(e)]
            if isinstance(f, ast.Name) and f.id == "len" and len(e.args) == 1:
                return Lin.of_term(("len", self.term(e.args[0])))
            if isinstance(f, ast.Name) and f.id in ("int", "float", "bytes", "bytearray", "memoryview") and len(e.args) == 1 and not e.keywords:
                return self.lin(e.args[0])
            if isinstance(f, ast.Attribute) and f.attr == "from_bytes" and isinstance(f.value, ast.Name) and f.value.id == "int" and e.args:
                order, signed = "big", False
                if len(e.args) > 1:
                    order = _constv(self, e.args[1], order)
                for k in e.keywords:
                    if k.arg == "byteorder":
                        order = _constv(self, k.value, None)
                    if k.arg == "signed":
                        signed = _constv(self, k.value, None)
                return Lin.of_term(("int", self.term(e.args[0]), order, signed))
            if isinstance(f, ast.Attribute) and f.attr == "to_bytes" and (e.args or e.keywords or not (isinstance(f.value, ast.Name) and f.value.id == "int")):
                # x.to_bytes(n, byteorder, signed=...)  /  int.to_bytes(x, length=n, ...)
                args = list(e.args)
                if isinstance(f.value, ast.Name) and f.value.id == "int" and args:
                    val, args = args[0], args[1:]
                else:
                    val = f.value
                n = _constv(self, args[0], None) if args else 1          # length defaults to 1, byteorder to 'big' (3.11+)
                order = _constv(self, args[1], None) if len(args) > 1 else "big"
                signed = False
                for k in e.keywords:
                    if k.arg == "length":
                        n = _constv(self, k.value, None)
                    elif k.arg == "byteorder":
                        order = _constv(self, k.value, None)
                    elif k.arg == "signed":
                        signed = _constv(self, k.value, None)
                return Lin.of_term(("tobytes", _t(self.lin(val)), n, order, signed))
            up = self._unpack(e)
            if up is not None:
                return up
            if self.inline is not None:
                r = self.inline(self, e)
                if r is not None:
                    return r
            name = norm(f)
            return Lin.of_term(("call", name, tuple(self.term(a) for a in e.args) + tuple((k.arg, self.term(k.value)) for k in e.keywords)))
        if isinstance(e, ast.Constant):
            return Lin.of_term(("const", repr(e.value)))
        if isinstance(e, ast.Await):
            return self.lin(e.value)
        if isinstance(e, ast.NamedExpr):
            return self.lin(e.value)
        return Lin.of_term(("expr", norm(e)))

    def _unpack(self, e: ast.Call) -> Optional[Lin]:
        """struct.unpack_from(fmt, buf, off) / struct.unpack(fmt, buf[a:b]) with a constant integer format:
        a tuple term whose elements are the same int.from_bytes terms the manual decoding would give."""
        name = norm(e.func)
        if name not in ("struct.unpack_from", "unpack_from", "struct.unpack", "unpack") or len(e.args) < 2:
            return None
        fmt = _constv(self, e.args[0], None)
        if not isinstance(fmt, str) or not fmt:
            return None
        order = "big"
        body = fmt
        if fmt[0] in "><!=@":
            order = "little" if fmt[0] == "<" else "big"
            if fmt[0] in "=@":
                return None
            body = fmt[1:]
        else:
            return None        # native order / alignment: not modelled
        sizes = {"b": 1, "B": 1, "h": 2, "H": 2, "i": 4, "I": 4, "l": 4, "L": 4, "q": 8, "Q": 8, "x": 1}
        if not body or any(ch not in sizes for ch in body):
            return None
        buf = e.args[1]
        if name.endswith("unpack_from"):
            base = self.term(buf)
            off = self.lin(e.args[2]) if len(e.args) > 2 else Lin.of_const(0)
            for k in e.keywords:
                if k.arg == "offset":
                    off = self.lin(k.value)
        else:
            t = self.lin(buf).single_term()
            if t is None or t[0] != "slice" or t[2] is None:
                return None
            base, off = t[1], t[2]
        elems = []
        pos = off
        for ch in body:
            n = sizes[ch]
            if ch != "x":
                elems.append(Lin.of_term(("int", ("slice", base, pos, pos + Lin.of_const(n)), order, ch.islower())))
            pos = pos + Lin.of_const(n)
        return Lin.of_term(("tuple", tuple(elems), pos - off))

    # ------------------------------------------------------------------ facts
    def facts_of(self, atom: ast.expr, outcome: bool) -> List["Fact"]:
        """Facts established when *atom* evaluates to *outcome*."""
        if isinstance(atom, ast.Compare) and len(atom.ops) >= 1:
            out: List[Fact] = []
            left = atom.left
            all_ok = True
            parts = []
            for op, right in zip(atom.ops, atom.comparators):
                parts.append((left, op, right))
                left = right
            if len(parts) > 1 and not outcome:
                return [Fact("opaque", None, (norm(atom), outcome))]  # not (a<b<c): a disjunction
            for l, op, r in parts:
                f = self._cmp_fact(l, op, r, outcome)
                out.append(f)
            return out
        # truthiness of a plain expression
        return [Fact("truthy" if outcome else "falsy", None, self.term(atom))]

    def _cmp_fact(self, l, op, r, outcome) -> "Fact":
        if isinstance(op, (ast.In, ast.NotIn)):
            try:
                vals = self.prog.consteval(r, self.mod, self._cenv)
                vals = frozenset(v.value if isinstance(v, EnumVal) else v for v in vals)
                positive = isinstance(op, ast.In) == outcome
                return Fact("in" if positive else "notin", self.lin(l), vals)
            except (NotConst, TypeError):
                return Fact("opaque", None, (norm(l), type(op).__name__, norm(r), outcome))
        if isinstance(op, (ast.Is, ast.IsNot)):
            return Fact("opaque", None, (norm(l), type(op).__name__, norm(r), outcome))
        ll, rl = self.lin(l), self.lin(r)
        if isinstance(op, (ast.Eq, ast.NotEq)):
            lt_, rt_ = ll.single_term(), rl.single_term()
            for a, b in ((lt_, rt_), (rt_, lt_)):
                if a is not None and b is not None and a[0] == "tobytes" and b[0] == "slice" and a[2] is not None:
                    # X.to_bytes(n, order, signed) == data[i:j]   <=>   X == int.from_bytes(data[i:j], order, signed)
                    # (defined only while X fits n bytes - totality of to_bytes is checked separately)
                    inner = a[1][1] if a[1][0] == "lin" else Lin.of_term(a[1])
                    ll, rl = inner, Lin.of_term(("int", b, a[3], bool(a[4])))
                    break
        d = ll - rl
        name = {ast.Eq: "==", ast.NotEq: "!=", ast.Lt: "<", ast.LtE: "<=", ast.Gt: ">", ast.GtE: ">="}[type(op)]
        if not outcome:
            name = {"==": "!=", "!=": "==", "<": ">=", "<=": ">", ">": "<=", ">=": "<"}[name]
        # canonical forms: d == 0, d != 0, d >= 0 (integers: a < b  <=>  b - a - 1 >= 0)
        if name == "==":
            return Fact("eq", d)
        if name == "!=":
            return Fact("ne", d)
        if name == ">=":
            return Fact("ge", d)
        if name == ">":
            return Fact("ge", d - Lin.of_const(1))
        if name == "<=":
            return Fact("ge", -d)
        return Fact("ge", (-d) - Lin.of_const(1))


class Fact:
    """kind: eq/ne/ge (lin ? 0), in/notin (lin, values), truthy/falsy (term), opaque."""
    __slots__ = ("kind", "lin", "data")

    def __init__(self, kind, lin, data=None):
        self.kind, self.lin, self.data = kind, lin, data

    def __repr__(self):
        if self.kind in ("eq", "ne", "ge"):
            return "%r %s 0" % (self.lin, {"eq": "==", "ne": "!=", "ge": ">="}[self.kind])
        if self.kind in ("in", "notin"):
            return "%r %s %s" % (self.lin, self.kind, sorted(self.data, key=repr))
        if self.kind in ("truthy", "falsy"):
            return "%s(%s)" % (self.kind, term_str(self.data) if isinstance(self.data, tuple) else self.data)
        return "opaque%r" % (self.data,)


def _t(l: Lin):
    t = l.single_term()
    return t if t is not None else ("lin", l)


def _constv(sym: Sym, e: ast.expr, default):
    try:
        return sym.prog.consteval(e, sym.mod, sym._cenv)
    except NotConst:
        pass
    # a local / parameter bound to a constant in the symbolic environment (helper called with literal arguments)
    if isinstance(e, ast.Name) and e.id in sym.env:
        v = sym.env[e.id]
        if isinstance(v, Lin) and v.is_const() and v.const.denominator == 1:
            return int(v.const)
        t = v.single_term() if isinstance(v, Lin) else v
        if isinstance(t, tuple) and t and t[0] == "const":
            try:
                return ast.literal_eval(t[1])
            except (ValueError, SyntaxError):
                return default
    return default


def _is_byte(t: Tuple) -> bool:
    return t[0] == "byte"


def _disjoint_bits(l: Lin, r: Lin) -> bool:
    def rng(x: Lin):
        if x.const != 0 or len(x.terms) != 1:
            return None
        (t, c), = x.terms.items()
        if not _is_byte(t) or c.denominator != 1 or c <= 0 or (int(c) & (int(c) - 1)):
            return None
        lo = int(c).bit_length() - 1
        return (lo, lo + 8)
    a, b = rng(l), rng(r)
    return a is not None and b is not None and (a[1] <= b[0] or b[1] <= a[0])


def _combine_bytes(l: Lin) -> Lin:
    """256*x[p] + x[p+1] -> int(x[p:p+2], big, unsigned); x[p] + 256*x[p+1] -> little."""
    if l.const != 0 or len(l.terms) != 2:
        return l
    items = list(l.terms.items())
    for (ta, ca), (tb, cb) in (items, items[::-1]):
        if _is_byte(ta) and _is_byte(tb) and ta[1] == tb[1] and ca == 256 and cb == 1:
            pa, pb = ta[2], tb[2]
            def upper(hi):         # x[-2], x[-1] are x[-2:]: the slice that ends at index -1 + 1 has no upper bound
                return None if hi.is_const() and hi.const == -1 else hi + Lin.of_const(1)
            if (pb - pa) == Lin.of_const(1):
                return Lin.of_term(("int", ("slice", ta[1], pa, upper(pb)), "big", False))
            if (pa - pb) == Lin.of_const(1):
                return Lin.of_term(("int", ("slice", ta[1], pb, upper(pa)), "little", False))
    return l


# ---------------------------------------------------------------- entailment
def nonneg_term(t: Tuple) -> bool:
    """Terms known to be >= 0 whatever the input: len(..), x[i] of a bytes object, unsigned int.from_bytes."""
    if t[0] in ("len", "byte"):
        return True
    if t[0] == "int" and t[3] is False:
        return True
    return False


def entails_ge(facts: List[Fact], q: Lin) -> bool:
    """Do the facts imply q >= 0 ?  (q and facts over integers)"""
    def nonneg(l: Lin) -> bool:
        return l.const >= 0 and all(c >= 0 and nonneg_term(t) for t, c in l.terms.items())
    if nonneg(q):
        return True
    cands: List[Lin] = []
    for f in facts:
        if f.kind == "ge":
            cands.append(f.lin)
        elif f.kind == "eq":
            cands.append(f.lin)
            cands.append(-f.lin)
    for c in cands:
        if nonneg(q - c):
            return True
    # one level of chaining: q - c1 - c2
    for i, c1 in enumerate(cands):
        for c2 in cands[i + 1:]:
            if nonneg(q - c1 - c2):
                return True
    return False


def entails_eq(facts: List[Fact], q: Lin) -> bool:
    """Do the facts imply q == 0 ?"""
    if q.is_const():
        return q.const == 0
    for f in facts:
        if f.kind == "eq" and (f.lin == q or f.lin == -q):
            return True
    # substitution closure: q - k*f == 0 for an equality fact f
    for f in facts:
        if f.kind == "eq":
            for t, c in f.lin.terms.items():
                if t in q.terms:
                    k = q.terms[t] / c
                    rest = q - f.lin.scale(k)
                    if rest.is_const() and rest.const == 0:
                        return True
                    for g in facts:
                        if g is not f and g.kind == "eq" and (g.lin == rest or g.lin == -rest):
                            return True
    return False


def domain_constraints(facts: List[Fact], term: Tuple):
    """(allowed values or None, excluded values, symbolic terms it equals) for a term."""
    allowed = None
    excluded: set = set()
    equals: List[Tuple] = []
    for f in facts:
        if f.kind in ("eq", "ne") and f.lin is not None and term in f.lin.terms and abs(f.lin.terms[term]) == 1:
            rest = f.lin - Lin({term: f.lin.terms[term]})
            rest = rest.scale(Fraction(-1) / f.lin.terms[term])
            if rest.is_const():
                v = int(rest.const)
                if f.kind == "eq":
                    allowed = {v} if allowed is None else allowed & {v}
                else:
                    excluded.add(v)
            elif f.kind == "eq":
                t = rest.single_term()
                if t is not None:
                    equals.append(t)
        elif f.kind in ("in", "notin") and f.lin is not None and f.lin.single_term() == term:
            if f.kind == "in":
                allowed = set(f.data) if allowed is None else allowed & set(f.data)
            else:
                excluded |= set(f.data)
    return allowed, excluded, equals


def contradicts(assume: List[Fact], f: Fact) -> bool:
    """Do the assumptions make fact f impossible?  (sound, incomplete)"""
    if f.kind == "ne":
        return entails_eq(assume, f.lin)
    if f.kind == "ge":
        return entails_ge(assume, (-f.lin) - Lin.of_const(1))
    if f.kind == "eq":
        if any(a.kind == "ne" and (a.lin == f.lin or a.lin == -f.lin) for a in assume):
            return True
        if entails_ge(assume, f.lin - Lin.of_const(1)) or entails_ge(assume, (-f.lin) - Lin.of_const(1)):
            return True
        # t == c against the domain the assumptions give t
        for t, c in f.lin.terms.items():
            if abs(c) == 1:
                rest = (f.lin - Lin({t: c})).scale(Fraction(-1) / c)
                if rest.is_const():
                    allowed, excluded, _ = domain_constraints(assume, t)
                    v = int(rest.const)
                    if v in excluded or (allowed is not None and v not in allowed):
                        return True
        return False
    if f.kind in ("in", "notin"):
        t = f.lin.single_term()
        if t is None:
            return False
        allowed, excluded, _ = domain_constraints(assume, t)
        if f.kind == "in":
            return (allowed is not None and not (allowed & set(f.data))) or set(f.data) <= excluded
        return allowed is not None and allowed <= set(f.data)
    if f.kind in ("truthy", "falsy"):
        opp = "falsy" if f.kind == "truthy" else "truthy"
        return any(a.kind == opp and a.data == f.data for a in assume)
    return False


def joint_contradiction(assume: List[Fact], facts: List[Fact]) -> Optional[Fact]:
    """A fact of the path (or the union of its exclusions on one term: ``x != a`` and ``x != b`` against x in {a, b})
    that the assumptions make impossible; None when the path is not refuted."""
    for f in facts:
        if contradicts(assume, f):
            return f
    excl: Dict[Tuple, set] = {}
    for f in facts:
        if f.kind == "ne" and f.lin is not None:
            for t, c in f.lin.terms.items():
                if abs(c) == 1:
                    rest = (f.lin - Lin({t: c})).scale(Fraction(-1) / c)
                    if rest.is_const() and rest.const.denominator == 1:
                        excl.setdefault(t, set()).add(int(rest.const))
        elif f.kind == "notin" and f.lin is not None and f.lin.single_term() is not None:
            excl.setdefault(f.lin.single_term(), set()).update(f.data)
    for t, ex in excl.items():
        allowed, excluded, _ = domain_constraints(assume, t)
        if allowed is not None and allowed <= (ex | excluded):
            return Fact("notin", Lin.of_term(t), frozenset(ex))
    return None
