"""Abstract interpretation of the decoder functions (read_* helpers, Sensor.read / read_value
overrides, table getter lambdas) over a small value domain:

  none | const | numeric expression tree over *reads* | object descriptor | opaque

A *read* is (base address, byte delta, n bytes, signed, kind); the evaluator tracks the buffer
position through seek()/read() so that the summary says which bytes a decoder consumes and how it
interprets them.  Undecidable conditions fork the path and are recorded as conditions of the case.
Functions that receive the buffer are inlined; everything else is kept as an opaque call.
Nothing is executed: the interpreter walks the AST.
"""
from __future__ import annotations

import ast
from fractions import Fraction
from typing import Any, Dict, Iterable, List, Optional, Tuple

from . import AnalysisError
from .model import Program, FuncInfo, ClassInfo, Module, NotConst, EnumVal, UNKNOWN, norm, node_src
from .calls import Resolver
from .tables import Opaque, Row

MAX_PATHS = 20000

# ------------------------------------------------------------------ values
NONE = ("none",)


def const(v) -> Tuple:
    return ("const", v)


def is_num(v) -> bool:
    return v[0] in ("num",)


def num(tree) -> Tuple:
    return ("num", simplify(tree))


def obj(kind: str, *payload) -> Tuple:
    return ("obj", kind) + tuple(payload)


def opaque(desc: str, *deps) -> Tuple:
    return ("opaque", desc) + tuple(deps)


def tree_of(v) -> Optional[Tuple]:
    if v[0] == "num":
        return v[1]
    if v[0] == "const" and isinstance(v[1], (int, float, Fraction)) and not isinstance(v[1], bool):
        return ("c", Fraction(v[1]) if not isinstance(v[1], float) or v[1] == int(v[1]) else Fraction(v[1]).limit_denominator(10 ** 9))
    if v[0] == "const" and isinstance(v[1], bool):
        return ("c", Fraction(int(v[1])))
    if v[0] == "const" and isinstance(v[1], EnumVal) and isinstance(v[1].value, int):
        return ("c", Fraction(v[1].value))
    return None


def simplify(t: Tuple) -> Tuple:
    k = t[0]
    if k in ("c", "read"):
        return t
    if k == "add":
        terms: List[Tuple] = []
        c = Fraction(0)
        for x in t[1]:
            x = simplify(x)
            if x[0] == "add":
                for y in x[1]:
                    if y[0] == "c":
                        c += y[1]
                    else:
                        terms.append(y)
            elif x[0] == "c":
                c += x[1]
            else:
                terms.append(x)
        terms.sort(key=repr)
        if c != 0:
            terms.append(("c", c))
        if not terms:
            return ("c", Fraction(0))
        if len(terms) == 1:
            return terms[0]
        return ("add", tuple(terms))
    if k == "mul":
        fs: List[Tuple] = []
        c = Fraction(1)
        for x in t[1]:
            x = simplify(x)
            if x[0] == "mul":
                for y in x[1]:
                    if y[0] == "c":
                        c *= y[1]
                    else:
                        fs.append(y)
            elif x[0] == "c":
                c *= x[1]
            else:
                fs.append(x)
        fs.sort(key=repr)
        if c == 0:
            return ("c", Fraction(0))
        if not fs:
            return ("c", c)
        if c != 1:
            fs.append(("c", c))
        if len(fs) == 1:
            return fs[0]
        return ("mul", tuple(fs))
    if k in ("round", "abs", "int", "neg"):
        inner = simplify(t[1])
        if k == "neg":
            return simplify(("mul", (inner, ("c", Fraction(-1)))))
        if inner[0] == "c":
            if k == "abs":
                return ("c", abs(inner[1]))
        return (k, inner) + tuple(t[2:])
    if k == "max":
        return ("max", tuple(sorted((simplify(x) for x in t[1]), key=repr)))
    if k == "min":
        return ("min", tuple(sorted((simplify(x) for x in t[1]), key=repr)))
    return t


def lin_of(t: Tuple) -> Optional[Tuple[Tuple, Fraction, Fraction]]:
    """(read leaf, coef, add) when the tree is coef*read + add."""
    t = simplify(t)
    if t[0] == "read":
        return t, Fraction(1), Fraction(0)
    if t[0] == "mul" and len(t[1]) == 2 and t[1][0][0] == "read" and t[1][1][0] == "c":
        return t[1][0], t[1][1][1], Fraction(0)
    if t[0] == "add" and len(t[1]) == 2 and t[1][1][0] == "c":
        inner = lin_of(t[1][0])
        if inner:
            return inner[0], inner[1], inner[2] + t[1][1][1]
    return None


def reads_in(t) -> List[Tuple]:
    out = []

    def walk(x):
        if isinstance(x, tuple):
            if x and x[0] == "read":
                if x not in out:
                    out.append(x)
                return
            for y in x:
                walk(y)
    walk(t)
    return out


def tree_str(t: Tuple) -> str:
    k = t[0]
    if k == "c":
        return str(t[1])
    if k == "read":
        _, base, delta, n, signed, kind = t
        return "%s%d%s@%s%s" % (kind[0], n, "s" if signed else "u", base, "+%d" % delta if delta else "")
    if k == "add":
        return "(" + " + ".join(tree_str(x) for x in t[1]) + ")"
    if k == "mul":
        return "(" + " * ".join(tree_str(x) for x in t[1]) + ")"
    if k in ("round", "abs", "int"):
        return "%s(%s%s)" % (k, tree_str(t[1]), "".join(", %s" % x for x in t[2:]))
    if k in ("max", "min"):
        return "%s(%s)" % (k, ", ".join(tree_str(x) for x in t[1]))
    return repr(t)


class Case:
    __slots__ = ("conds", "outcome", "value", "reads", "stores", "notes")

    def __init__(self, conds, outcome, value, reads, stores, notes):
        self.conds, self.outcome, self.value, self.reads, self.stores, self.notes = conds, outcome, value, reads, stores, notes

    def __repr__(self):
        return "<case %s -> %s %s>" % (list(self.conds), self.outcome, self.value)


class State:
    __slots__ = ("env", "conds", "reads", "base", "delta", "stores", "notes")

    def __init__(self):
        self.env: Dict[str, Any] = {}
        self.conds: Tuple = ()
        self.reads: Tuple = ()          # read leaves in order
        self.base: Any = "entry"        # address the buffer was last positioned at
        self.delta: int = 0             # bytes consumed since
        self.stores: Tuple = ()         # (attr, value) stores to self
        self.notes: Tuple = ()

    def copy(self) -> "State":
        s = State()
        s.env = dict(self.env)
        s.conds, s.reads, s.base, s.delta, s.stores, s.notes = self.conds, self.reads, self.base, self.delta, self.stores, self.notes
        return s


def _is_vals(v) -> bool:
    return isinstance(v, tuple) and len(v) >= 3 and v[0] == "obj" and v[1] == "vals"


class _CmpTypeError:
    """Outcome of a test whose evaluation raises TypeError (ordering comparison with None)."""
    def __bool__(self):
        return False

    def __repr__(self):
        return "CMP_TYPEERROR"


CMP_TYPEERROR = _CmpTypeError()


class Evaluator:
    def __init__(self, prog: Program, res: Resolver):
        self.prog, self.res = prog, res
        self.buffer_cls = prog.cls("ProtocolResponse")
        self.npaths = 0

    # ------------------------------------------------------------- top level
    def run(self, fn: FuncInfo, args: Dict[str, Any], self_attrs: Optional[Dict[str, Any]] = None, base: Any = "entry",
            self_cls: Optional[ClassInfo] = None) -> List[Case]:
        """Evaluate fn with parameter bindings *args* (values of this domain); buffer parameters are bound to ('buffer',)."""
        self.npaths = 0
        st = State()
        st.base = base
        st.env.update(args)
        if self_attrs is not None:
            st.env["self"] = ("selfobj", (self_cls or fn.cls).name if (self_cls or fn.cls) else "?", _freeze(self_attrs))
        out = []
        for st2, oc in self.call_body(fn, st, 0):
            out.append(Case(st2.conds, oc[0], oc[1] if len(oc) > 1 else None, st2.reads, st2.stores, st2.notes))
        return out

    def call_body(self, fn: FuncInfo, st: State, depth: int):
        if depth > 12:
            raise AnalysisError("decoder inlining too deep at %s" % fn.qualname)
        for st2, oc in self.block(fn.body, st, fn, depth):
            if oc[0] == "fall":
                yield st2, ("return", NONE)
            else:
                yield st2, oc

    # ------------------------------------------------------------ statements
    def block(self, stmts, st: State, fn: FuncInfo, depth: int):
        if not stmts:
            yield st, ("fall",)
            return
        head, rest = stmts[0], stmts[1:]
        for st2, oc in self.stmt(head, st, fn, depth):
            if oc[0] == "fall":
                yield from self.block(rest, st2, fn, depth)
            else:
                yield st2, oc

    def stmt(self, s, st: State, fn: FuncInfo, depth: int):
        self.npaths += 1
        if self.npaths > MAX_PATHS * 50:
            raise AnalysisError("decoder evaluation budget exceeded in %s" % fn.qualname)
        if isinstance(s, ast.Expr):
            if isinstance(s.value, ast.Constant):
                yield st, ("fall",)
                return
            c_ = s.value
            if isinstance(c_, ast.Call) and isinstance(c_.func, ast.Attribute) and c_.func.attr == "append" and isinstance(c_.func.value, ast.Name) \
                    and len(c_.args) == 1 and not c_.keywords and _is_vals(st.env.get(c_.func.value.id)):
                # fields.append(<read>): the local list grows by one element (lists built in a constant loop)
                for st2, v in self.expr(c_.args[0], st, fn, depth):
                    if v[0] == "typeerror":
                        yield st2, ("raise", "TypeError")
                        continue
                    st3 = st2.copy()
                    cur = st3.env[c_.func.value.id]
                    st3.env[c_.func.value.id] = obj("vals", tuple(cur[2]) + (v,))
                    yield st3, ("fall",)
                return
            for st2, v in self.expr(s.value, st, fn, depth):
                yield st2, (("raise", "TypeError") if v[0] == "typeerror" else ("fall",))
            return
        if isinstance(s, (ast.Assign, ast.AnnAssign)):
            if isinstance(s, ast.AnnAssign) and s.value is None:
                yield st, ("fall",)
                return
            targets = s.targets if isinstance(s, ast.Assign) else [s.target]
            for st2, v in self.expr(s.value, st, fn, depth):
                if v[0] == "typeerror":
                    # the operation raises where it is evaluated, not where its (never produced) value is used
                    st3 = st2.copy()
                    st3.notes = st3.notes + ("TypeError: %s" % v[1],)
                    yield st3, ("raise", "TypeError")
                    continue
                st3 = st2.copy()
                for t in targets:
                    self.store(t, v, st3)
                yield st3, ("fall",)
            return
        if isinstance(s, ast.AugAssign):
            fake = ast.BinOp(left=_load(s.target), op=s.op, right=s.value)
            ast.copy_location(fake, s)
            for st2, v in self.expr(fake, st, fn, depth):
                if v[0] == "typeerror":
                    st3 = st2.copy()
                    st3.notes = st3.notes + ("TypeError: %s" % v[1],)
                    yield st3, ("raise", "TypeError")
                    continue
                st3 = st2.copy()
                self.store(s.target, v, st3)
                yield st3, ("fall",)
            return
        if isinstance(s, ast.Return):
            if s.value is None:
                yield st, ("return", NONE)
                return
            for st2, v in self.expr(s.value, st, fn, depth):
                yield st2, ("return", v)
            return
        if isinstance(s, ast.Raise):
            name = "?"
            if s.exc is not None:
                e = s.exc.func if isinstance(s.exc, ast.Call) else s.exc
                name = norm(e)
                b_ = self.prog.lookup(fn.module, e.id) if isinstance(e, ast.Name) else None
                if (isinstance(e, ast.Attribute) and isinstance(e.value, ast.Name) and e.value.id in ("self", "cls")) or (b_ is not None and b_[0] == "func"):
                    # raise self._make_error(...) / raise _make_error(...): the class the helper builds
                    try:
                        cl = self.prog.resolve_exc_expr(fn.module, e)
                        if len(cl) == 1:
                            name = self.prog.exc_name(cl[0]).split(".")[-1]
                    except Exception:
                        pass
            yield st, ("raise", name)
            return
        if isinstance(s, ast.If):
            for st2, truth in self.cond(s.test, st, fn, depth):
                if truth is CMP_TYPEERROR:
                    yield st2, ("raise", "TypeError")
                    continue
                yield from self.block(s.body if truth else s.orelse, st2, fn, depth)
            return
        if isinstance(s, ast.Pass):
            yield st, ("fall",)
            return
        if isinstance(s, ast.For) and not s.orelse and not any(isinstance(x, (ast.Break, ast.Continue)) for x in ast.walk(s)):
            try:
                items = list(self.prog.consteval(s.iter, fn.module))
            except (NotConst, TypeError):
                items = None
            if items is not None and len(items) <= 64:
                def loop_rec(i, s_):
                    if i == len(items):
                        yield s_, ("fall",)
                        return
                    s2 = s_.copy()
                    self.store(s.target, NONE if items[i] is None else const(items[i]), s2)
                    for s3, oc in self.block(s.body, s2, fn, depth):
                        if oc[0] == "fall":
                            yield from loop_rec(i + 1, s3)
                        else:
                            yield s3, oc
                yield from loop_rec(0, st)
                return
        if isinstance(s, (ast.For, ast.While, ast.Try, ast.With)):
            st2 = st.copy()
            st2.notes = st2.notes + ("unmodelled %s at line %d of %s" % (type(s).__name__, s.lineno, fn.short),)
            # assigned names become opaque
            for n in ast.walk(s):
                if isinstance(n, ast.Name) and isinstance(n.ctx, ast.Store):
                    st2.env[n.id] = opaque("loop-var:%s" % n.id)
            yield st2, ("fall",)
            return
        raise AnalysisError("decoder statement %s not modelled (%s)" % (type(s).__name__, fn.loc(s)))

    def store(self, t, v, st: State):
        if isinstance(t, ast.Name):
            st.env[t.id] = v
        elif isinstance(t, ast.Attribute) and isinstance(t.value, ast.Name):
            st.env["%s.%s" % (t.value.id, t.attr)] = v
            if t.value.id == "self":
                st.stores = st.stores + ((t.attr, v),)
        elif isinstance(t, ast.Attribute):
            st.notes = st.notes + ("store to %s" % norm(t),)
        elif isinstance(t, (ast.Tuple, ast.List)):
            elems = None
            if v[0] == "obj" and v[1] == "vals" and len(v[2]) == len(t.elts):
                elems = list(v[2])
            elif v[0] == "const" and isinstance(v[1], (tuple, list)) and len(v[1]) == len(t.elts):
                elems = [NONE if x is None else const(x) for x in v[1]]
            for i, e in enumerate(t.elts):
                self.store(e, elems[i] if elems is not None and not isinstance(e, ast.Starred) else opaque("unpacked"), st)

    # ------------------------------------------------------------ conditions
    def cond(self, test, st: State, fn: FuncInfo, depth: int):
        """Yield (state, bool) - or (state, CMP_TYPEERROR) where evaluating the test raises TypeError (None < 0)."""
        if isinstance(test, ast.UnaryOp) and isinstance(test.op, ast.Not):
            for st2, b in self.cond(test.operand, st, fn, depth):
                yield st2, (b if b is CMP_TYPEERROR else not b)
            return
        if isinstance(test, ast.BoolOp):
            is_and = isinstance(test.op, ast.And)

            def rec(i, s):
                if i == len(test.values):
                    yield s, is_and
                    return
                for s2, b in self.cond(test.values[i], s, fn, depth):
                    if b is CMP_TYPEERROR or b != is_and:
                        yield s2, b
                    else:
                        yield from rec(i + 1, s2)
            yield from rec(0, st)
            return
        if isinstance(test, ast.Compare) and len(test.ops) > 1:
            # a < b < c  ->  a < b and b < c
            parts = []
            left = test.left
            for op, right in zip(test.ops, test.comparators):
                parts.append(ast.Compare(left=left, ops=[op], comparators=[right]))
                left = right
            fake = ast.BoolOp(op=ast.And(), values=parts)
            yield from self.cond(fake, st, fn, depth)
            return
        if isinstance(test, ast.Compare):
            for st2, l in self.expr(test.left, st, fn, depth):
                for st3, r in self.expr(test.comparators[0], st2, fn, depth):
                    yield from self.decide(test.ops[0], l, r, st3, norm(test))
            return
        for st2, v in self.expr(test, st, fn, depth):
            if v == NONE:
                yield st2, False
            elif v[0] == "const":
                yield st2, bool(v[1])
            elif v[0] in ("obj", "selfobj", "buffer"):
                yield st2, True
            else:
                yield from self.fork(("truthy", _key(v)), st2)

    def fork(self, atom: Tuple, st: State):
        neg = ("not", atom)
        if atom in st.conds:
            yield st, True
            return
        if neg in st.conds:
            yield st, False
            return
        a, b = st.copy(), st.copy()
        a.conds = a.conds + (atom,)
        b.conds = b.conds + (neg,)
        yield a, True
        yield b, False

    def decide(self, op, l, r, st: State, text: str):
        opn = type(op).__name__
        if opn in ("Is", "IsNot"):
            if r == NONE or l == NONE:
                other = l if r == NONE else r
                if other == NONE:
                    yield st, opn == "Is"
                    return
                if other[0] in ("num", "const", "obj", "selfobj", "buffer"):
                    yield st, opn == "IsNot"
                    return
            yield from self.fork(("cmp", opn, _key(l), _key(r)), st)
            return
        if opn in ("Lt", "LtE", "Gt", "GtE") and (l == NONE or r == NONE) and not (l == NONE and r == NONE and False):
            # None < 0: TypeError (an 'undefined' register value that reaches a range check)
            st2 = st.copy()
            st2.notes = st2.notes + ("TypeError: ordering comparison with None in %s" % text[:60],)
            yield st2, CMP_TYPEERROR
            return
        if l[0] == "const" and r[0] == "const":
            try:
                import operator as o
                f = {"Eq": o.eq, "NotEq": o.ne, "Lt": o.lt, "LtE": o.le, "Gt": o.gt, "GtE": o.ge,
                     "In": lambda a, b: a in b, "NotIn": lambda a, b: a not in b}[opn]
                yield st, bool(f(_plain(l[1]), _plain(r[1])))
                return
            except Exception:
                pass
        if opn in ("Eq", "NotEq") and (l == NONE) != (r == NONE) and (l[0] in ("num", "const") or r[0] in ("num", "const")):
            yield st, opn == "NotEq"
            return
        # x in (a, b)  ==  x == a or x == b  (same canonical atoms whichever way it is written)
        if opn in ("In", "NotIn") and tree_of(l) is not None and tree_of(l)[0] != "c":
            elems = None
            if r[0] == "obj" and len(r) > 2 and r[1] == "seq":
                elems = list(r[2])
            elif r[0] == "const" and isinstance(r[1], (tuple, list, set, frozenset)):
                elems = [const(x) for x in (sorted(r[1], key=repr) if isinstance(r[1], (set, frozenset)) else r[1])]
            if elems is not None and all(tree_of(x) is not None for x in elems):
                def rec(i, s):
                    if i == len(elems):
                        yield s, opn == "NotIn"
                        return
                    for s2, b in self.decide(ast.Eq(), l, elems[i], s, text):
                        if b:
                            yield s2, opn == "In"
                        else:
                            yield from rec(i + 1, s2)
                yield from rec(0, st)
                return
        # canonical atom: (op, tree, const) with the symbolic side on the left
        lt, rt = tree_of(l), tree_of(r)
        if lt is not None and rt is not None:
            if lt[0] == "c" and rt[0] != "c":
                flip = {"Lt": "Gt", "LtE": "GtE", "Gt": "Lt", "GtE": "LtE", "Eq": "Eq", "NotEq": "NotEq"}
                if opn in flip:
                    opn, lt, rt = flip[opn], rt, lt
            pos = {"NotEq": ("Eq", True), "GtE": ("Lt", True), "LtE": ("Gt", True)}
            if opn in pos:
                base, negate = pos[opn]
                for s2, b in self.fork((base, lt, rt), st):
                    yield s2, (not b) if negate else b
                return
            yield from self.fork((opn, lt, rt), st)
            return
        if opn in ("In", "NotIn") and r[0] == "const" and lt is not None:
            for s2, b in self.fork(("In", lt, tuple(_plain(x) for x in r[1])), st):
                yield s2, b if opn == "In" else not b
            return
        for s2, b in self.fork(("cmp", opn, _key(l), _key(r)), st):
            yield s2, b

    # ----------------------------------------------------------- expressions
    def expr(self, e, st: State, fn: FuncInfo, depth: int):
        """Yield (state, value)."""
        prog = self.prog
        if isinstance(e, ast.Constant):
            yield st, (NONE if e.value is None else const(e.value))
            return
        if isinstance(e, ast.Name):
            if e.id in st.env:
                yield st, st.env[e.id]
                return
            try:
                v = prog.consteval(e, fn.module)
                yield st, const(v)
            except NotConst:
                yield st, opaque("name:%s" % e.id)
            return
        if isinstance(e, ast.Attribute):
            if isinstance(e.value, ast.Name):
                k = "%s.%s" % (e.value.id, e.attr)
                if k in st.env:
                    yield st, st.env[k]
                    return
                base = st.env.get(e.value.id)
                if base is not None and base[0] == "selfobj":
                    attrs = dict(base[2])
                    if e.attr in attrs:
                        yield st, _lift(attrs[e.attr])
                        return
                    yield st, opaque("self.%s" % e.attr)
                    return
            try:
                v = prog.consteval(e, fn.module)
                yield st, const(v)
                return
            except NotConst:
                pass
            for st2, b in self.expr(e.value, st, fn, depth):
                if b[0] == "const" and isinstance(b[1], EnumVal) and e.attr == "value":
                    yield st2, const(b[1].value)
                else:
                    yield st2, opaque("attr:%s" % e.attr, _key(b))
            return
        if isinstance(e, ast.IfExp):
            for st2, truth in self.cond(e.test, st, fn, depth):
                if truth is CMP_TYPEERROR:
                    yield st2, ("typeerror", "ordering comparison with None in %s" % norm(e.test)[:60])
                    continue
                yield from self.expr(e.body if truth else e.orelse, st2, fn, depth)
            return
        if isinstance(e, ast.UnaryOp):
            for st2, v in self.expr(e.operand, st, fn, depth):
                t = tree_of(v)
                if isinstance(e.op, ast.USub) and t is not None:
                    yield st2, _numv(("neg", t))
                elif isinstance(e.op, ast.UAdd) and t is not None:
                    yield st2, v
                elif isinstance(e.op, ast.Not):
                    yield st2, opaque("not", _key(v))
                else:
                    yield st2, opaque("unary", _key(v))
            return
        if isinstance(e, ast.NamedExpr):
            for st2, v in self.expr(e.value, st, fn, depth):
                st3 = st2.copy()
                if isinstance(e.target, ast.Name):
                    st3.env[e.target.id] = v
                yield st3, v
            return
        if isinstance(e, ast.BinOp):
            for st2, l in self.expr(e.left, st, fn, depth):
                for st3, r in self.expr(e.right, st2, fn, depth):
                    yield st3, self.binop(e.op, l, r, e, st3)
            return
        if isinstance(e, ast.BoolOp):
            # value of a boolean expression (rare in decoders): opaque over the operand keys
            keys = []
            cur = [st]
            for v in e.values:
                nxt = []
                for s in cur:
                    for s2, val in self.expr(v, s, fn, depth):
                        keys.append(_key(val))
                        nxt.append(s2)
                cur = nxt[:1]
            yield cur[0], opaque("boolop", tuple(keys))
            return
        if isinstance(e, ast.Compare):
            done = False
            for st2, truth in self.cond(e, st, fn, depth):
                yield st2, (("typeerror", "ordering comparison with None in %s" % norm(e)[:60]) if truth is CMP_TYPEERROR else const(truth))
            return
        if isinstance(e, ast.Subscript):
            for st2, b in self.expr(e.value, st, fn, depth):
                if isinstance(e.slice, ast.Slice):
                    yield st2, opaque("slice", _key(b))
                    continue
                for st3, i in self.expr(e.slice, st2, fn, depth):
                    if b[0] == "obj" and b[1] == "unpacked-float" and i == const(0):
                        yield st3, num(b[2])
                    elif b[0] == "obj" and b[1] == "vals" and i[0] == "const" and isinstance(i[1], int) and -len(b[2]) <= i[1] < len(b[2]):
                        yield st3, b[2][i[1]]
                    elif b[0] == "const" and i[0] == "const":
                        try:
                            yield st3, const(b[1][_plain(i[1])])
                        except Exception:
                            yield st3, opaque("subscript")
                    else:
                        yield st3, opaque("subscript", _key(b), _key(i))
            return
        if isinstance(e, ast.Call):
            yield from self.call(e, st, fn, depth)
            return
        if isinstance(e, ast.JoinedStr):
            yield st, obj("str")
            return
        if isinstance(e, ast.List) and not e.elts:
            yield st, obj("vals", ())
            return
        if isinstance(e, (ast.Tuple, ast.List)):
            vals = []
            cur = st
            for x in e.elts:
                got = list(self.expr(x, cur, fn, depth))
                cur, v = got[0]
                vals.append(v)
            if all(v[0] == "const" for v in vals):
                yield cur, const(tuple(v[1] for v in vals))
            else:
                yield cur, obj("seq", tuple(_key(v) for v in vals))
            return
        if isinstance(e, ast.Lambda):
            yield st, obj("lambda")
            return
        if isinstance(e, (ast.ListComp, ast.GeneratorExp)) and len(e.generators) == 1 and not e.generators[0].ifs \
                and not e.generators[0].is_async:
            # [f(buffer) for _ in range(6)]: a comprehension over a constant iterable is the sequence of its elements
            g = e.generators[0]
            try:
                items = list(prog.consteval(g.iter, fn.module))
            except (NotConst, TypeError):
                items = None
            if items is not None and len(items) <= 64:
                names = [n.id for n in ast.walk(g.target) if isinstance(n, ast.Name)]

                def comp_rec(i, s, acc):
                    if i == len(items):
                        yield s, acc
                        return
                    s2 = s.copy()
                    self.store(g.target, NONE if items[i] is None else const(items[i]), s2)
                    for s3, v in self.expr(e.elt, s2, fn, depth):
                        yield from comp_rec(i + 1, s3, acc + [v])
                for s4, vals in comp_rec(0, st, []):
                    s5 = s4.copy()
                    for nm in names:        # the loop variable is local to the comprehension
                        if nm in st.env:
                            s5.env[nm] = st.env[nm]
                        else:
                            s5.env.pop(nm, None)
                    te = [v for v in vals if v[0] == "typeerror"]
                    yield s5, (te[0] if te else obj("vals", tuple(vals)))
                return
        yield st, opaque("expr:%s" % type(e).__name__)

    def binop(self, op, l, r, node, st: State):
        lt, rt = tree_of(l), tree_of(r)
        opn = type(op).__name__
        if l == NONE or r == NONE:
            return ("typeerror", "None in arithmetic: %s" % norm(node)[:80])
        if lt is None or rt is None:
            if l[0] == "typeerror":
                return l
            if r[0] == "typeerror":
                return r
            return opaque("binop:%s" % opn, _key(l), _key(r))
        if opn == "Add":
            return _numv(("add", (lt, rt)))
        if opn == "Sub":
            return _numv(("add", (lt, ("neg", rt))))
        if opn == "Mult":
            return _numv(("mul", (lt, rt)))
        if opn == "Div":
            if rt[0] == "c" and rt[1] != 0:
                return _numv(("mul", (lt, ("c", Fraction(1) / rt[1]))))
            return ("num", ("div", simplify(lt), simplify(rt)))
        if opn == "LShift":
            if rt[0] == "c" and rt[1] >= 0 and rt[1].denominator == 1:
                return _numv(("mul", (lt, ("c", Fraction(2 ** int(rt[1]))))))
            return ("num", ("lshift", simplify(lt), simplify(rt)))
        if opn in ("BitOr", "BitAnd", "BitXor", "RShift", "FloorDiv", "Mod", "Pow"):
            return ("num", (opn.lower(), simplify(lt), simplify(rt)))
        return opaque("binop:%s" % opn)

    # ------------------------------------------------------------------ calls
    def call(self, e: ast.Call, st: State, fn: FuncInfo, depth: int):
        f = e.func
        name = norm(f)
        # buffer primitives
        if isinstance(f, ast.Attribute) and isinstance(f.value, ast.Name) and st.env.get(f.value.id, ("",))[0] == "buffer":
            if f.attr == "seek" and len(e.args) == 1:
                for st2, a in self.expr(e.args[0], st, fn, depth):
                    st3 = st2.copy()
                    st3.base = _plain(a[1]) if a[0] == "const" else ("sym", _key(a))
                    st3.delta = 0
                    yield st3, NONE
                return
            if f.attr == "read" and len(e.args) == 1:
                for st2, a in self.expr(e.args[0], st, fn, depth):
                    if a[0] != "const":
                        raise AnalysisError("non-constant read size at %s" % fn.loc(e))
                    n = int(_plain(a[1]))
                    st3 = st2.copy()
                    rb = ("rawbytes", st3.base, st3.delta, n)
                    st3.delta += n
                    yield st3, rb
                return
            if f.attr in ("response_data",):
                yield st, opaque("response_data")
                return
        # int.from_bytes(raw, byteorder=..., signed=...)
        if name == "int.from_bytes" and e.args:
            for st2, raw in self.expr(e.args[0], st, fn, depth):
                order, signed = "big", False
                if len(e.args) > 1:
                    order = self._constkw(e.args[1], fn, order, st2)
                for k in e.keywords:
                    if k.arg == "byteorder":
                        order = self._constkw(k.value, fn, None, st2)
                    elif k.arg == "signed":
                        signed = self._constkw(k.value, fn, None, st2)
                if raw[0] == "rawbytes":
                    leaf = ("read", raw[1], raw[2], raw[3], bool(signed), "int" if order == "big" else "int-" + str(order))
                    st3 = st2.copy()
                    st3.reads = st3.reads + (leaf,)
                    yield st3, num(leaf)
                else:
                    yield st2, opaque("int.from_bytes", _key(raw))
            return
        if name in ("unpack", "struct.unpack") and len(e.args) == 2:
            for st2, fmt in self.expr(e.args[0], st, fn, depth):
                for st3, raw in self.expr(e.args[1], st2, fn, depth):
                    if raw[0] == "rawbytes" and fmt[0] == "const":
                        leaf = ("read", raw[1], raw[2], raw[3], True, "float%s" % fmt[1])
                        st4 = st3.copy()
                        st4.reads = st4.reads + (leaf,)
                        yield st4, obj("unpacked-float", leaf)
                    else:
                        yield st3, opaque("unpack")
            return
        if name == "len" and len(e.args) == 1:
            for st2, a in self.expr(e.args[0], st, fn, depth):
                if a[0] == "rawbytes":
                    # full-length answers are assumed here; short reads are C14's business
                    yield st2, const(a[3])
                elif a[0] == "const":
                    try:
                        yield st2, const(len(a[1]))
                    except TypeError:
                        yield st2, opaque("len")
                else:
                    yield st2, opaque("len", _key(a))
            return
        if name in ("float", "int", "abs", "round", "max", "min", "str", "bool", "bin", "list", "tuple", "isinstance", "bytes", "bytearray"):
            yield from self._builtin(name, e, st, fn, depth)
            return
        # package functions: inline the ones that take the buffer
        ct = self.res.resolve_call(e, fn)
        targets = [t for t in ct.funcs]
        if isinstance(f, ast.Attribute) and isinstance(f.value, ast.Name) and f.value.id == "self" and st.env.get("self", ("",))[0] == "selfobj":
            # dispatch on the concrete class of the row being evaluated
            clsname = st.env["self"][1]
            ci = self.prog.cls(clsname)
            m = self.prog.find_method(ci, f.attr)
            attrs = dict(st.env["self"][2])
            if m is None and f.attr in attrs and isinstance(attrs[f.attr], Opaque) and isinstance(attrs[f.attr].node, ast.Lambda):
                lam = self.prog.func_of(attrs[f.attr].node)
                yield from self._inline(lam, e, st, fn, depth, bound_self=False)
                return
            targets = [m] if m is not None else []
        # evaluate arguments once to see whether the buffer is passed
        passes_buffer = any(isinstance(a, ast.Name) and st.env.get(a.id, ("",))[0] == "buffer" for a in e.args)
        from .inventory import KNOWN_FUNCS, is_known
        if len(targets) == 1 and (passes_buffer or targets[0].name in ("read_value", "read")
                                  or (not is_known(targets[0], self.prog) and not targets[0].is_lambda and depth < 6)):
            bound = isinstance(f, ast.Attribute) and not (isinstance(f.value, ast.Name) and self.prog.lookup(fn.module, f.value.id) and self.prog.lookup(fn.module, f.value.id)[0] == "class")
            yield from self._inline(targets[0], e, st, fn, depth, bound_self=bound and targets[0].cls is not None and not targets[0].is_static)
            return
        # anything else: opaque call over its argument values (arguments may fork)
        kws = list(e.keywords)
        if name in ("datetime", "datetime.datetime") and all(k.arg in _DATETIME_FIELDS for k in kws):
            kws.sort(key=lambda k: _DATETIME_FIELDS.index(k.arg))     # keyword order is immaterial: use the signature's
        arg_nodes = list(e.args) + [k.value for k in kws]

        def args_rec(i, s, acc):
            if i == len(arg_nodes):
                yield s, acc
                return
            for s2, v in self.expr(arg_nodes[i], s, fn, depth):
                yield from args_rec(i + 1, s2, acc + [v])
        for cur, vals in args_rec(0, st, []):
            keys = [_key(v) for v in vals]
            te = [v for v in vals if v[0] == "typeerror"]
            if isinstance(f, ast.Attribute):
                for cur2, recv in self.expr(f.value, cur, fn, depth):
                    if f.attr == "get" and recv[0] == "const" and isinstance(recv[1], dict):
                        yield cur2, obj("label", _key(("const", _dictkey(recv[1]))), keys[0] if keys else None)
                    else:
                        yield cur2, obj("call", name if recv[0] != "const" else "%s.%s" % (type(recv[1]).__name__, f.attr), tuple(keys), _key(recv) if recv[0] in ("num",) else None)
                    break
                continue
            yield cur, obj("call", name, tuple(keys))

    def _constkw(self, e, fn, default, st=None):
        if st is not None and isinstance(e, ast.Name) and e.id in st.env:
            v = st.env[e.id]          # a parameter bound to a constant (helper called with signed=True, 'big', ...)
            return _plain(v[1]) if v[0] == "const" else default
        try:
            return self.prog.consteval(e, fn.module)
        except NotConst:
            return default

    def _builtin(self, name, e, st, fn, depth):
        def args_rec(i, s, acc):
            if i == len(e.args):
                yield s, acc
                return
            for s2, v in self.expr(e.args[i], s, fn, depth):
                yield from args_rec(i + 1, s2, acc + [v])
        for st2, vals in args_rec(0, st, []):
            ts = [tree_of(v) for v in vals]
            if any(v[0] == "typeerror" for v in vals):
                yield st2, [v for v in vals if v[0] == "typeerror"][0]
                continue
            if name in ("list", "tuple") and len(vals) == 1 and vals[0][0] == "obj" and vals[0][1] == "vals":
                yield st2, vals[0]
            elif name == "float" and len(vals) == 1:
                if vals[0] == NONE:
                    yield st2, ("typeerror", "float(None)")
                elif ts[0] is not None:
                    yield st2, _numv(ts[0])
                else:
                    yield st2, opaque("float", _key(vals[0]))
            elif name == "int" and len(vals) == 1 and ts[0] is not None:
                yield st2, ("num", ("int", simplify(ts[0])))
            elif name == "abs" and len(vals) == 1:
                if vals[0] == NONE:
                    yield st2, ("typeerror", "abs(None)")
                elif ts[0] is not None:
                    yield st2, ("num", simplify(("abs", ts[0])))
                else:
                    yield st2, opaque("abs")
            elif name == "round" and vals:
                if vals[0] == NONE:
                    yield st2, ("typeerror", "round(None)")
                elif ts[0] is not None:
                    nd = _plain(vals[1][1]) if len(vals) > 1 and vals[1][0] == "const" else None
                    yield st2, ("num", ("round", simplify(ts[0]), nd))
                else:
                    yield st2, opaque("round")
            elif name in ("max", "min") and len(vals) >= 2:
                if any(v == NONE for v in vals):
                    yield st2, ("typeerror", "%s() with None" % name)
                elif all(t is not None for t in ts):
                    yield st2, ("num", simplify((name, tuple(ts))))
                else:
                    yield st2, opaque(name)
            else:
                yield st2, obj("call", name, tuple(_key(v) for v in vals))

    def _inline(self, callee: FuncInfo, e: ast.Call, st: State, fn: FuncInfo, depth: int, bound_self: bool):
        params = callee.params
        a = callee.node.args
        allp = [x.arg for x in a.posonlyargs + a.args]
        defaults = a.defaults
        env_self = None
        if bound_self and allp and allp[0] == "self":
            allp = allp[1:]
            if isinstance(e.func, ast.Attribute):
                if isinstance(e.func.value, ast.Name) and e.func.value.id in st.env:
                    env_self = st.env[e.func.value.id]

        def bind(i, s, acc):
            if i == len(allp):
                yield s, acc
                return
            p = allp[i]
            src = None
            if i < len(e.args):
                src = e.args[i]
            else:
                for k in e.keywords:
                    if k.arg == p:
                        src = k.value
            if src is not None:
                for s2, v in self.expr(src, s, fn, depth):
                    yield from bind(i + 1, s2, dict(acc, **{p: v}))
                return
            di = i - (len(allp) - len(defaults))
            if 0 <= di < len(defaults):
                for s2, v in self.expr(defaults[di], s, callee, depth):
                    yield from bind(i + 1, s2, dict(acc, **{p: v}))
                return
            raise AnalysisError("missing argument %s calling %s at %s" % (p, callee.short, fn.loc(e)))

        for st2, bound in bind(0, st, {}):
            inner = st2.copy()
            saved_env = inner.env
            inner.env = dict(bound)
            if env_self is not None:
                inner.env["self"] = env_self
                for k, v in saved_env.items():
                    if k.startswith("self."):
                        inner.env[k] = v
            for st3, oc in self.call_body(callee, inner, depth + 1):
                out = st3.copy()
                new_env = dict(saved_env)
                for k, v in st3.env.items():
                    if k.startswith("self.") and env_self is not None:
                        new_env[k] = v
                out.env = new_env
                if oc[0] == "return":
                    yield out, oc[1]
                elif oc[0] == "raise":
                    out.conds = out.conds + (("raises", oc[1], callee.short),)
                    yield out, ("raised", oc[1])
                else:
                    yield out, NONE


_DATETIME_FIELDS = ("year", "month", "day", "hour", "minute", "second", "microsecond", "tzinfo")


def _numv(tree) -> Tuple:
    return ("num", simplify(tree))


def _load(t):
    import copy
    n = copy.deepcopy(t)
    for x in ast.walk(n):
        if hasattr(x, "ctx"):
            x.ctx = ast.Load()
    return n


def _plain(v):
    return v.value if isinstance(v, EnumVal) else v


def _dictkey(d: dict) -> Tuple:
    return tuple(sorted(((repr(k), repr(v)) for k, v in d.items())))


def _key(v) -> Any:
    """Hashable key of a value."""
    if isinstance(v, tuple):
        return tuple(_key(x) for x in v)
    if isinstance(v, dict):
        return ("dict", _dictkey(v))
    if isinstance(v, (list, set)):
        return tuple(_key(x) for x in v)
    if isinstance(v, Opaque):
        return ("opaque-node", norm(v.node))
    if isinstance(v, EnumVal):
        return ("enum", v.cls.name, v.name)
    return v


def _freeze(attrs: Dict[str, Any]) -> Tuple:
    return tuple(attrs.items())


def _lift(v: Any) -> Tuple:
    """Row attribute value -> domain value."""
    if v is None:
        return NONE
    if isinstance(v, Opaque):
        return obj("opaque-attr", norm(v.node))
    return const(v)


# ---------------------------------------------------------------- summaries
class Decoders:
    """Summaries of how a table row is decoded."""

    def __init__(self, prog: Program, res: Resolver):
        self.prog, self.res = prog, res
        self.ev = Evaluator(prog, res)
        self._cache: Dict[Any, List[Case]] = {}

    def row_cases(self, row: Row, via: str = "read") -> List[Case]:
        """Cases of ``row.read(data)`` (bulk path: seek + read_value or the class' own read) or of
        ``row.read_value(data)`` positioned at the row's offset (single-sensor path)."""
        key = (row.cls.qualname, via, _key(tuple(sorted((k, _key(v)) for k, v in row.attrs.items() if k not in ("name", "id_", "unit", "kind")))))
        if key in self._cache:
            return self._cache[key]
        m = self.prog.find_method(row.cls, via)
        if m is None:
            raise AnalysisError("%s has no %s" % (row.cls.name, via))
        base = "entry" if via == "read" else row.attrs.get("offset")
        cases = self.ev.run(m, {m.params[1]: ("buffer",)}, self_attrs=row.attrs, base=base, self_cls=row.cls)
        self._cache[key] = cases
        return cases

    def helper_cases(self, fn: FuncInfo, extra_args: Optional[Dict[str, Any]] = None) -> List[Case]:
        args: Dict[str, Any] = {}
        a = fn.node.args
        allp = [x.arg for x in a.posonlyargs + a.args]
        nd = len(a.defaults)
        for i, p in enumerate(allp):
            if i == 0:
                args[p] = ("buffer",)
            elif extra_args and p in extra_args:
                args[p] = extra_args[p]
            else:
                di = i - (len(allp) - nd)
                if 0 <= di < nd:
                    try:
                        v = self.prog.consteval(a.defaults[di], fn.module)
                        args[p] = NONE if v is None else const(v)
                    except NotConst:
                        args[p] = opaque("default")
                else:
                    args[p] = ("param", p)
        return self.ev.run(fn, args)


def consumed_ranges(cases: List[Case]) -> List[Tuple[Any, int, int]]:
    """Union over all cases of the byte ranges read: [(base, lo_delta, hi_delta)] merged per base."""
    per: Dict[Any, Tuple[int, int]] = {}
    for c in cases:
        for leaf in c.reads:
            _, base, delta, n, signed, kind = leaf
            lo, hi = per.get(base, (delta, delta + n))
            per[base] = (min(lo, delta), max(hi, delta + n))
    return [(b, lo, hi) for b, (lo, hi) in per.items()]


# ------------------------------------------------------------ canonical text
def _leaf_str(leaf: Tuple) -> str:
    _, base, delta, n, signed, kind = leaf
    k = kind if kind.startswith("float") else ("s" if signed else "u")
    if kind.startswith("int-"):
        k += "(" + kind[4:] + ")"
    return "%s%d@%d" % (k, n, delta)


def canon_tree(t: Tuple) -> str:
    k = t[0]
    if k == "c":
        return str(t[1])
    if k == "read":
        return "R[%s]" % _leaf_str(t)
    if k == "add":
        return "(" + " + ".join(canon_tree(x) for x in t[1]) + ")"
    if k == "mul":
        return "(" + " * ".join(canon_tree(x) for x in t[1]) + ")"
    if k in ("round", "abs", "int"):
        return "%s(%s%s)" % (k, canon_tree(t[1]), "".join(", %s" % x for x in t[2:]))
    if k in ("max", "min"):
        return "%s(%s)" % (k, ", ".join(canon_tree(x) for x in t[1]))
    if k in ("lshift", "div", "bitor", "bitand", "bitxor", "rshift", "floordiv", "mod", "pow"):
        return "%s(%s, %s)" % (k, canon_tree(t[1]), canon_tree(t[2]))
    return repr(t)


def canon_value(v) -> str:
    if v is None:
        return "-"
    if v == NONE:
        return "None"
    if v[0] == "num":
        return canon_tree(v[1])
    if v[0] == "const":
        return repr(_plain(v[1])) if not isinstance(v[1], dict) else "{...}"
    if v[0] == "obj":
        if v[1] == "label":
            return "label(%s)" % canon_value(_unkey(v[3]))
        if v[1] == "call":
            args = ", ".join(canon_value(_unkey(a)) for a in v[3]) if len(v) > 3 else ""
            return "%s(%s)" % (v[2], args)
        return v[1]
    if v[0] == "selfobj":
        return "self"
    if v[0] == "raised":
        return "raise %s" % v[1]
    if v[0] == "typeerror":
        return "TypeError(%s)" % v[1]
    return "opaque(%s)" % (v[1],)


def _unkey(k):
    """Keys of values are the values themselves with inner tuples frozen; good enough to render."""
    if isinstance(k, tuple) and k and k[0] in ("num", "const", "none", "obj", "opaque", "selfobj", "raised", "typeerror"):
        if k[0] == "const" and isinstance(k[1], tuple) and k[1] and k[1][0] == "dict":
            return ("const", {})
        return k
    return ("opaque", repr(k))


def canon_cond(c: Tuple) -> str:
    if c[0] == "not":
        return "!" + canon_cond(c[1])
    if c[0] in ("Eq", "Lt", "Gt", "In") and len(c) == 3:
        op = {"Eq": "==", "Lt": "<", "Gt": ">", "In": " in "}[c[0]]
        rhs = canon_tree(c[2]) if isinstance(c[2], tuple) and c[2] and c[2][0] in ("c", "read", "add", "mul") else repr(c[2])
        return "%s%s%s" % (canon_tree(c[1]), op, rhs)
    if c[0] == "raises":
        return "raises(%s)" % c[1]
    return repr(c)


def canon_cases(cases: List[Case]) -> Tuple[str, List[str]]:
    reads = []
    for c in cases:
        for leaf in c.reads:
            s = _leaf_str(leaf)
            if s not in reads:
                reads.append(s)
    out = []
    for c in cases:
        cl = [x for x in c.conds if x[0] != "raises"]
        pos_eq = [x for x in cl if x[0] == "Eq"]
        if pos_eq and all(x[0] == "Eq" or (x[0] == "not" and x[1][0] == "Eq") for x in cl):
            cl = pos_eq          # R == c makes the R != c' conjuncts redundant
        conds = sorted(canon_cond(x) for x in cl)
        val = canon_value(c.value) if c.outcome == "return" else "raise %s" % c.value
        out.append("%s -> %s" % (" & ".join(conds) if conds else "always", val))
    return ",".join(reads), sorted(set(out))


def default_case_of(cases: List[Case]) -> Optional[Case]:
    """The returning case in which no sentinel equality holds."""
    for c in cases:
        if c.outcome == "return" and not any(x[0] == "Eq" for x in c.conds):
            return c
    return None
