"""Finite-state abstract interpretation of the inverter families' identification and runtime reads.

The abstract state is the tuple of capability flags and the current content of every per-instance sensor
table (rows after the filters applied so far).  read_device_info / read_runtime_data / sensors() are
path-enumerated and each path is replayed on that state for one *configuration* (truth values of the model
predicates, rated-power class) and one *oracle* (which requests are refused); infeasible paths are pruned by
the replay.  Everything (tables, filters, commands, predicates) is read from the source on every run.
"""
from __future__ import annotations

import ast
import itertools
from typing import Any, Dict, List, Optional, Tuple

from . import AnalysisError
from .astutil import call_chain, chain, self_store
from .model import Program, FuncInfo, ClassInfo, NotConst, norm
from .calls import Resolver
from .paths import enumerate_paths, Path
from .tables import Tables, Row, read_commands


class RowView:
    """Attribute bag handed to the constant evaluator for filter predicates (s.id_, s.offset, ...)."""

    def __init__(self, row: Row):
        self.__dict__.update(row.attrs)
        self.__dict__["_row"] = row


class Config:
    def __init__(self, preds: Dict[str, bool], rated_power: int, label: str):
        self.preds, self.rated_power, self.label = preds, rated_power, label

    def key(self):
        return (tuple(sorted(self.preds.items())), self.rated_power)

    def __repr__(self):
        return "<cfg %s power=%d>" % (self.label, self.rated_power)


class FamState:
    def __init__(self):
        self.flags: Dict[str, Optional[bool]] = {}
        self.tables: Dict[str, Tuple[Row, ...]] = {}
        self.versions: Dict[str, int] = {}
        self.settings_tables: List[str] = []

    def copy(self) -> "FamState":
        s = FamState()
        s.flags = dict(self.flags)
        s.tables = dict(self.tables)
        s.versions = dict(self.versions)
        s.settings_tables = list(self.settings_tables)
        return s

    def key(self):
        return (tuple(sorted(self.flags.items())), tuple(sorted((k, tuple(r.id_ for r in v)) for k, v in self.tables.items())))


class Mapped:
    """One _map_response(response, table) performed on a path."""

    def __init__(self, cmd: Optional[str], cmd_node, table_attr: str, rows: Tuple[Row, ...], node, version: int):
        self.cmd, self.cmd_node, self.table_attr, self.rows, self.node, self.version = cmd, cmd_node, table_attr, rows, node, version


class Outcome:
    def __init__(self, path: Path, state: FamState, mapped: List[Mapped], end: str, exc=None, choices=None, requests=None):
        self.path, self.state, self.mapped, self.end, self.exc = path, state, mapped, end, exc
        self.choices = choices or []       # oracle decisions taken along the path [(cmd, 'ok'|'illegal'|'rejected-other'|'failed')]
        self.requests = requests or []


def _illegal_choice(ev) -> Optional[str]:
    """For a test of a rejection's message against ILLEGAL DATA ADDRESS, in either polarity (``==``, ``!=``, ``not ...``):
    'illegal' when this branch is the one where the inverter said the register does not exist, else 'rejected-other'."""
    node, val = ev.node, bool(ev.data)
    while isinstance(node, ast.UnaryOp) and isinstance(node.op, ast.Not):
        node, val = node.operand, not val
    txt = norm(node)
    if "message" not in txt or "ILLEGAL" not in txt.upper():
        return None
    if isinstance(node, ast.Compare) and len(node.ops) == 1 and isinstance(node.ops[0], (ast.NotEq, ast.IsNot, ast.NotIn)):
        val = not val
    return "illegal" if val else "rejected-other"


class Family:
    def __init__(self, prog: Program, res: Resolver, tables: Tables, ci: ClassInfo):
        self.prog, self.res, self.tables, self.ci = prog, res, tables, ci
        self.commands = read_commands(prog, res, ci)
        self.init = ci.methods.get("__init__")
        self.predicates = self._model_predicates()
        self._paths: Dict[str, List[Path]] = {}

    # ------------------------------------------------------------ model preds
    def _model_predicates(self) -> Dict[str, List[Tuple[str, ...]]]:
        """is_xxx(inverter) -> the constant tag tuples the predicate (or a helper it calls) consults.  The tuples only
        serve to enumerate representative serial numbers; the predicate's value for a serial number is obtained by
        constant-folding the function itself (eval_pred)."""
        out = {}
        mod = self.prog.modules.get("goodwe.model")
        if mod is None:
            raise AnalysisError("goodwe/model.py not found")
        self._pred_fn = {}

        def tag_lists(fn, depth=0):
            lists = []
            for n in ast.walk(fn.node):
                if isinstance(n, ast.Name) and isinstance(n.ctx, ast.Load):
                    b = self.prog.lookup(fn.module, n.id)
                    if b and b[0] == "const":
                        try:
                            v = self.prog.consteval(b[1], self.prog._owner_module(fn.module, n.id))
                        except NotConst:
                            continue
                        if isinstance(v, (tuple, list)) and v and all(isinstance(x, str) for x in v):
                            lists.append(tuple(v))
                    elif b and b[0] == "func" and depth < 3 and b[1] is not fn:
                        lists.extend(tag_lists(b[1], depth + 1))
            return lists
        for name, b in mod.scope.items():
            if b[0] != "func" or not name.startswith("is_"):
                continue
            fn = b[1]
            if len(fn.params) != 1:
                raise AnalysisError("model predicate %s has an unexpected signature" % name)
            lists = tag_lists(fn)
            if not lists:
                raise AnalysisError("model predicate %s consults no constant tag list (%s)" % (name, fn.loc()))
            self._pred_fn[name] = fn
            out[name] = lists
        return out

    def eval_pred(self, name: str, serial: str) -> bool:
        from .constfold import fold_function

        class _Inv:
            pass
        inv = _Inv()
        inv.serial_number = serial
        fn = self._pred_fn[name]
        try:
            return bool(fold_function(self.prog, fn, args={fn.params[0]: inv}))
        except NotConst as e:
            raise AnalysisError("model predicate %s cannot be evaluated for serial number %r: %s" % (name, serial, e))

    def used_predicates(self) -> List[str]:
        used = []
        for mname in ("read_device_info", "read_runtime_data", "sensors", "get_operation_modes", "set_operation_mode"):
            m = self.ci.methods.get(mname)
            if m is None:
                continue
            for n in ast.walk(m.node):
                if isinstance(n, ast.Call) and isinstance(n.func, ast.Name) and n.func.id in self.predicates and n.func.id not in used:
                    used.append(n.func.id)
        return used

    def family_tags(self) -> Tuple[str, ...]:
        mod = self.prog.modules["goodwe.model"]
        name = "%s_MODEL_TAGS" % self.ci.name
        b = mod.scope.get(name)
        if not b:
            raise AnalysisError("model.%s not found" % name)
        return tuple(self.prog.consteval(b[1], mod))

    def configurations(self, thorough: bool) -> List[Config]:
        """Realisable predicate vectors: one serial number per family tag, alone and combined with every
        tag of the predicate lists that is not a family tag ('25KET', '29K9ET' style sub-strings)."""
        preds = self.used_predicates()
        fam_tags = self.family_tags()
        extras = sorted({t for p in preds for lst in self.predicates[p] for t in lst if t not in fam_tags and len(t) > 3})
        serials = []
        for t in fam_tags:
            serials.append("9%s0000" % t)
            for x in extras:
                serials.append("9%s%s00" % (x, t))
                if x.endswith(t[:2]):
                    serials.append("9%s%s00" % (x, t[2:]))   # overlapping form, e.g. 25KET + ETU -> 25KETU
        powers = [5000, 15000, 20000, 25000, 30000] if thorough else [5000, 15000, 25000]
        seen, out = set(), []
        for s in serials:
            vec = {p: self.eval_pred(p, s) for p in preds}
            for pw in powers:
                c = Config(vec, pw, s)
                k = c.key() if not thorough else (s, pw)
                if k in seen:
                    continue
                seen.add(k)
                out.append(c)
        return out

    # ------------------------------------------------------------ init state
    def initial_states(self) -> List[FamState]:
        """The state(s) __init__ leaves behind.  A table that a constructor argument switches on or off
        (self._t = self.__all_t if <parameter> else ()) gives one initial state per alternative."""
        base = self.initial_state()
        out = [base]
        if self.init is None:
            return out
        for n in self.init.node.body:
            for attr, value, kind in self_store(n):
                if isinstance(value, ast.IfExp):
                    alts = []
                    for b in (value.body, value.orelse):
                        if isinstance(b, ast.Attribute) and isinstance(b.value, ast.Name) and b.value.id == "self" and (self.ci.name, b.attr) in self.tables.tables:
                            alts.append(tuple(self.tables.table(self.ci.name, b.attr)))
                        elif isinstance(b, (ast.Tuple, ast.List)) and not b.elts:
                            alts.append(())
                        else:
                            alts = None
                            break
                    if alts:
                        new = []
                        for st in out:
                            for rows in alts:
                                s2 = st.copy()
                                s2.tables[attr] = rows
                                s2.versions[attr] = 0
                                new.append(s2)
                        out = new
        return out

    def initial_state(self) -> FamState:
        st = FamState()
        if self.init is None:
            return st
        for n in self.init.node.body:
            for attr, value, kind in self_store(n):
                if value is None:
                    continue
                if isinstance(value, ast.Constant) and isinstance(value.value, bool):
                    st.flags[attr] = value.value
                elif isinstance(value, ast.Attribute) and isinstance(value.value, ast.Name) and value.value.id == "self" \
                        and (self.ci.name, value.attr) in self.tables.tables:
                    st.tables[attr] = tuple(self.tables.table(self.ci.name, value.attr))
                    st.versions[attr] = 0
                elif isinstance(value, ast.DictComp) and attr == "_settings":
                    it = value.generators[0].iter
                    if isinstance(it, ast.Attribute) and (self.ci.name, it.attr) in self.tables.tables:
                        st.settings_tables = [it.attr]
        return st

    # ----------------------------------------------------------------- paths
    def paths(self, method: str) -> List[Path]:
        if method not in self._paths:
            fn = self.ci.methods.get(method)
            if fn is None:
                raise AnalysisError("%s.%s not found" % (self.ci.name, method))
            rej = self.prog.cls("RequestRejectedException")
            fail = self.prog.cls("RequestFailedException")

            def oracle(node, f):
                if isinstance(node, ast.Await) and isinstance(node.value, ast.Call) and (call_chain(node.value) or ("",))[-1] == "_read_from_socket":
                    return [rej, fail]
                return []
            self._paths[method] = enumerate_paths(self.prog, fn, oracle)
        return self._paths[method]

    # ---------------------------------------------------------------- replay
    def replay(self, method: str, st0: FamState, cfg: Config, refuse: Optional[Dict[str, str]] = None) -> List[Outcome]:
        """All feasible outcomes of running *method* from st0 under cfg.  refuse: command attr (or 'addr:count')
        -> 'illegal' | 'rejected-other' | 'failed'; commands not listed answer normally.  None = every choice is explored."""
        out: List[Outcome] = []
        fn = self.ci.methods[method]
        for p in self.paths(method):
            if refuse is not None and not self._consistent(fn, p, refuse):
                continue
            if not self._flags_consistent(p, st0):
                continue
            for oc in self._replay_path(fn, p, st0, cfg, refuse):
                out.append(oc)
        return out

    def _flags_consistent(self, p: Path, st: "FamState") -> bool:
        """Quick rejection: tests of a capability flag that happen before the path assigns that flag must agree with the state."""
        if not hasattr(self, "_flagtests"):
            self._flagtests = {}
        ft = self._flagtests.get(id(p))
        if ft is None:
            ft = []
            written = set()
            for ev in p.events:
                if ev.kind == "stmt":
                    for a, _, _ in self_store(ev.node):
                        written.add(a)
                elif ev.kind == "test":
                    c = chain(ev.node)
                    if c and len(c) == 2 and c[0] == "self" and c[1].startswith("_has_") and c[1] not in written:
                        ft.append((c[1], ev.data))
            self._flagtests[id(p)] = ft
        for attr, want in ft:
            v = st.flags.get(attr)
            if v is not None and v != want:
                return False
        return True

    def _signature(self, fn: FuncInfo, p: Path):
        """Static list of the oracle decisions a path takes: [(cmd, 'ok'|'rejected'|'failed'|'illegal'|'rejected-other')]"""
        key = id(p)
        if not hasattr(self, "_sigs"):
            self._sigs = {}
        if key in self._sigs:
            return self._sigs[key]
        rej = self.prog.cls("RequestRejectedException")
        sig = []
        last = None
        for ev in p.events:
            if ev.kind == "await" and isinstance(ev.node.value, ast.Call) and (call_chain(ev.node.value) or ("",))[-1] == "_read_from_socket":
                sig.append((self._cmd_of(ev.node.value, fn)[0], "ok"))
            elif ev.kind == "raise" and isinstance(ev.node, ast.Await) and isinstance(ev.node.value, ast.Call) \
                    and (call_chain(ev.node.value) or ("",))[-1] == "_read_from_socket":
                last = self._cmd_of(ev.node.value, fn)[0]
                sig.append((last, "rejected" if ev.data is rej else "failed"))
            elif ev.kind == "test" and last is not None and _illegal_choice(ev) is not None:
                sig.append((last, _illegal_choice(ev)))
        self._sigs[key] = sig
        return sig

    def _consistent(self, fn: FuncInfo, p: Path, refuse: Dict[str, str]) -> bool:
        for cmd, kind in self._signature(fn, p):
            want = refuse.get(cmd, "ok")
            if kind == "ok" and want != "ok":
                return False
            if kind == "failed" and want != "failed":
                return False
            if kind == "rejected" and want not in ("illegal", "rejected-other"):
                return False
            if kind in ("illegal", "rejected-other") and want != kind:
                return False
        return True

    def _cmd_of(self, call: ast.Call, fn: FuncInfo) -> Tuple[str, Any]:
        """Key of the command passed to _read_from_socket."""
        a = call.args[0] if call.args else None
        if isinstance(a, ast.Attribute) and isinstance(a.value, ast.Name) and a.value.id == "self":
            return a.attr, a
        if isinstance(a, ast.Call) and (call_chain(a) or ("",))[-1] == "_read_command" and len(a.args) == 2:
            try:
                return "%d:%d" % (self.prog.consteval(a.args[0], fn.module), self.prog.consteval(a.args[1], fn.module)), a
            except NotConst:
                return "dynamic:%s" % norm(a), a
        return "other:%s" % (norm(a) if a is not None else "?"), a

    def _replay_path(self, fn: FuncInfo, p: Path, st0: FamState, cfg: Config, refuse) -> List[Outcome]:
        rej = self.prog.cls("RequestRejectedException")
        fail = self.prog.cls("RequestFailedException")
        # worklist of (event index, state, locals) because unknown booleans fork
        results: List[Outcome] = []
        work = [(0, st0.copy(), {"resp": {}, "mapped": [], "choices": [], "pending": None, "illegal": None, "requests": []})]
        while work:
            i, st, loc = work.pop()
            feasible = True
            while i < len(p.events) and feasible:
                ev = p.events[i]
                i += 1
                if ev.kind == "await" and isinstance(ev.node.value, ast.Call) and (call_chain(ev.node.value) or ("",))[-1] == "_read_from_socket":
                    cmd, node = self._cmd_of(ev.node.value, fn)
                    want = "ok"
                    if refuse is not None:
                        want = refuse.get(cmd, "ok")
                        if want != "ok":
                            feasible = False    # this request does not answer normally under the oracle
                            break
                    loc = dict(loc, pending=(cmd, node), choices=loc["choices"] + [(cmd, "ok")], requests=loc["requests"] + [cmd])
                    continue
                if ev.kind == "raise" and isinstance(ev.node, ast.Await) and isinstance(ev.node.value, ast.Call) \
                        and (call_chain(ev.node.value) or ("",))[-1] == "_read_from_socket":
                    cmd, node = self._cmd_of(ev.node.value, fn)
                    kind = "rejected" if ev.data is rej else "failed"
                    if refuse is not None:
                        want = refuse.get(cmd, "ok")
                        if want == "ok" or (kind == "failed") != (want == "failed"):
                            feasible = False
                            break
                    loc = dict(loc, illegal=None, last_raise=(cmd, kind), requests=loc["requests"] + [cmd])
                    continue
                if ev.kind == "test":
                    v = self._eval_test(ev.node, st, cfg, loc, fn)
                    if v is None:
                        # free choice: remember the decision about ILLEGAL DATA ADDRESS
                        if _illegal_choice(ev) is not None:
                            cmd, kind = loc.get("last_raise", ("?", "rejected"))
                            choice = _illegal_choice(ev)
                            if refuse is not None and refuse.get(cmd, "ok") not in (choice,):
                                feasible = False
                                break
                            loc = dict(loc, choices=loc["choices"] + [(cmd, choice)])
                        continue
                    if v != ev.data:
                        feasible = False
                    continue
                if ev.kind == "stmt":
                    forks = self._exec_stmt(ev.node, st, cfg, loc, fn)
                    if forks is None:
                        continue
                    # forks: list of (state, locals); continue with the first, queue the others
                    st, loc = forks[0]
                    for s2, l2 in forks[1:]:
                        work.append((i, s2, l2))
                    continue
                if ev.kind == "call":
                    self._exec_call(ev.node, st, loc, fn)
                    continue
                if ev.kind == "catch":
                    continue
            if not feasible:
                continue
            if p.end == "raise" and "last_raise" in loc and not any(c[0] == loc["last_raise"][0] and c[1] != "ok" for c in loc["choices"]):
                cmd, kind = loc["last_raise"]
                loc = dict(loc, choices=loc["choices"] + [(cmd, "failed" if kind == "failed" else "rejected-other")])
            results.append(Outcome(p, st, loc["mapped"], p.end, p.end_data, loc["choices"], loc["requests"]))
        return results

    def _eval_test(self, node, st: FamState, cfg: Config, loc, fn) -> Optional[bool]:
        if isinstance(node, ast.Call) and isinstance(node.func, ast.Name) and node.func.id in self.predicates:
            if node.func.id not in cfg.preds:
                cfg.preds[node.func.id] = self.eval_pred(node.func.id, cfg.label)
            return cfg.preds[node.func.id]
        c = chain(node)
        if c and len(c) == 2 and c[0] == "self" and c[1] in st.flags:
            return st.flags[c[1]]
        if c and len(c) == 2 and c[0] == "self" and c[1] in st.tables:
            return len(st.tables[c[1]]) > 0        # 'if self._sensors_extended:' - an optional table that may be empty
        if isinstance(node, ast.Compare) and len(node.ops) == 1 and norm(node.left) == "self.rated_power":
            try:
                k = self.prog.consteval(node.comparators[0], fn.module)
            except NotConst:
                return None
            import operator as o
            f = {ast.Lt: o.lt, ast.LtE: o.le, ast.Gt: o.gt, ast.GtE: o.ge, ast.Eq: o.eq, ast.NotEq: o.ne}.get(type(node.ops[0]))
            return f(cfg.rated_power, k) if f else None
        return None

    def _table_expr(self, e, st: FamState, loc) -> Optional[List[Tuple[str, Tuple[Row, ...]]]]:
        """[(attr, rows)] for an expression denoting a concatenation of tables."""
        if isinstance(e, ast.Attribute) and isinstance(e.value, ast.Name) and e.value.id == "self":
            if e.attr in st.tables:
                return [(e.attr, st.tables[e.attr])]
            if (self.ci.name, e.attr) in self.tables.tables:
                return [("class:" + e.attr, tuple(self.tables.table(self.ci.name, e.attr)))]
            return None
        if isinstance(e, ast.Name) and e.id in loc.get("tablevars", {}):
            return list(loc["tablevars"][e.id])
        if isinstance(e, ast.BinOp) and isinstance(e.op, ast.Add):
            l, r = self._table_expr(e.left, st, loc), self._table_expr(e.right, st, loc)
            if l is not None and r is not None:
                return l + r
        if isinstance(e, ast.Call) and isinstance(e.func, ast.Attribute) and e.func.attr in ("sensors", "settings") and chain(e.func.value) == ("self",):
            return None
        return None

    def _fold_table_value(self, value: ast.expr, st: FamState, fn: FuncInfo) -> Optional[Tuple[Row, ...]]:
        """Any other way of computing a table from tables (slices at a folded boundary, sorted(), bisect, a helper
        method that returns such an expression): evaluated by the constant evaluator with the tables bound to their
        current rows.  None when the value is not a closed function of the tables and constants."""
        from .astutil import subst
        from .calls import arg_for
        e = value.value if isinstance(value, ast.Await) else value
        mod = fn.module
        # self.helper(args) with one return statement: its returned expression, parameters substituted
        for _ in range(3):
            c = call_chain(e) if isinstance(e, ast.Call) else None
            if c and len(c) == 2 and c[0] == "self" and self.prog.find_method(self.ci, c[1]) is not None:
                m = self.prog.find_method(self.ci, c[1])
                rets = [n for n in ast.walk(m.node) if isinstance(n, ast.Return) and n.value is not None]
                if len(rets) != 1 or m.is_async:
                    return None
                env = {}
                for pn in m.params[1:]:
                    a = arg_for(e, m, pn)
                    if a is None:
                        return None
                    env[pn] = a
                e, mod = subst(rets[0].value, env), m.module
            else:
                break
        consts: Dict[str, Any] = {}

        def views(rows):
            return tuple(RowView(r) for r in rows)
        cls_tables = {a: self.tables.table(f, a) for (f, a) in self.tables.tables if f == self.ci.name}
        for a, rows in cls_tables.items():
            consts[a] = views(rows)                      # bare names inside the class body
        import copy

        class Bind(ast.NodeTransformer):
            def visit_Attribute(inner, n):
                if isinstance(n.value, ast.Name) and n.value.id == "self" and isinstance(n.ctx, ast.Load):
                    if n.attr in st.tables:
                        consts["__tbl_" + n.attr] = views(st.tables[n.attr])
                        return ast.copy_location(ast.Name(id="__tbl_" + n.attr, ctx=ast.Load()), n)
                    if n.attr in cls_tables:
                        return ast.copy_location(ast.Name(id=n.attr, ctx=ast.Load()), n)
                    for k in self.prog.mro(self.ci):
                        if hasattr(k, "class_attrs") and n.attr in k.class_attrs:
                            try:
                                consts["__cls_" + n.attr] = self.prog.consteval(k.class_attrs[n.attr], k.module, dict(consts), k)
                            except NotConst:
                                return n
                            return ast.copy_location(ast.Name(id="__cls_" + n.attr, ctx=ast.Load()), n)
                return inner.generic_visit(n)
        e2 = ast.fix_missing_locations(Bind().visit(copy.deepcopy(e)))
        try:
            v = self.prog.consteval(e2, mod, consts, self.ci)
        except NotConst:
            return None
        if isinstance(v, (tuple, list)) and all(isinstance(x, RowView) for x in v):
            return tuple(x._row for x in v)
        return None

    def _apply_filter(self, fexpr, rows: Tuple[Row, ...], fn: FuncInfo, st: Optional[FamState] = None) -> Tuple[Row, ...]:
        if not hasattr(self, "_filter_cache"):
            self._filter_cache = {}
        flags = tuple(sorted((k, v) for k, v in (st.flags.items() if st is not None else ()) if v is not None))
        ck = (id(fexpr), tuple(id(r) for r in rows), flags)
        if ck in self._filter_cache:
            return self._filter_cache[ck]
        res = self._apply_filter_uncached(fexpr, rows, fn, dict(flags))
        self._filter_cache[ck] = res
        return res

    def _apply_filter_uncached(self, fexpr, rows: Tuple[Row, ...], fn: FuncInfo, flags: Optional[dict] = None) -> Tuple[Row, ...]:
        pred = None
        if isinstance(fexpr, ast.comprehension):
            # (s for s in <table> if c1 if c2): the conjunction of the conditions
            conds = list(fexpr.ifs)
            pred = conds[0] if len(conds) == 1 else (ast.BoolOp(op=ast.And(), values=conds) if conds else ast.Constant(value=True))
            param, mod = fexpr.target.id, fn.module
        elif isinstance(fexpr, ast.Lambda):
            pred, param, mod = fexpr.body, fexpr.args.args[0].arg, fn.module
        else:
            c = chain(fexpr)
            if c and len(c) == 2 and c[0] == "self" and c[1] in self.ci.methods:
                m = self.ci.methods[c[1]]
                rets = [n for n in ast.walk(m.node) if isinstance(n, ast.Return)]
                if len(rets) == 1:
                    pred, param, mod = rets[0].value, m.params[-1], m.module
        if pred is None:
            raise AnalysisError("filter %s is not understood (%s)" % (norm(fexpr), fn.loc(fexpr)))
        # conditions that call a predicate method (s for s in t if self._keep(s)): the method's returned expression
        from .astutil import subst as _subst_expr
        import copy as _copy
        ci_ = self.ci

        class _InlinePred(ast.NodeTransformer):
            def visit_Call(inner, n):
                n = inner.generic_visit(n)
                c = chain(n.func)
                if c and len(c) == 2 and c[0] == "self" and c[1] in ci_.methods and len(n.args) == 1 and not n.keywords:
                    m_ = ci_.methods[c[1]]
                    rets_ = [x for x in ast.walk(m_.node) if isinstance(x, ast.Return) and x.value is not None]
                    if len(rets_) == 1:
                        return _subst_expr(rets_[0].value, {m_.params[-1]: n.args[0]})
                return n
        pred = ast.fix_missing_locations(_InlinePred().visit(_copy.deepcopy(pred)))
        out = []
        env0 = {}
        if flags and any(isinstance(x, ast.Name) and x.id == "self" for x in ast.walk(pred)):
            # a predicate method that consults the capability flags of the object: their current (definite) values
            class _SelfFlags:
                pass
            me = _SelfFlags()
            for k, v in flags.items():
                setattr(me, k, v)
            env0["self"] = me
        for r in rows:
            try:
                keep = self.prog.consteval(pred, mod, dict(env0, **{param: RowView(r)}))
            except NotConst as e:
                raise AnalysisError("filter predicate %s cannot be evaluated on %s: %s" % (norm(pred), r, e))
            if keep:
                out.append(r)
        return tuple(out)

    def _exec_stmt(self, node, st: FamState, cfg: Config, loc, fn):
        """Mutates st/loc in place; returns a list of (state, locals) when the statement forks."""
        stores = self_store(node)
        if isinstance(node, (ast.Assign, ast.AnnAssign)) and getattr(node, "value", None) is not None:
            value = node.value
            tgt = node.targets[0] if isinstance(node, ast.Assign) else node.target
            # response = await self._read_from_socket(...)
            if isinstance(tgt, ast.Name) and isinstance(value, ast.Await) and loc.get("pending") is not None:
                loc["resp"] = dict(loc["resp"], **{tgt.id: loc["pending"]})
                loc["pending"] = None
                return None
            # data = self._map_response(response, table)
            if isinstance(tgt, ast.Name) and isinstance(value, ast.Call) and (call_chain(value) or ("",))[-1] == "_map_response":
                self._record_map(value, st, loc, fn)
                return None
            # result = self._sensors + ...
            if isinstance(tgt, ast.Name):
                te = self._table_expr(value, st, loc)
                if te is None:
                    # kept = tuple(filter(pred, <table>)) / tuple(s for s in <table> if ...): a filtered table held in a local
                    f = src = None
                    if isinstance(value, ast.Call) and isinstance(value.func, ast.Name) and value.func.id == "tuple" and value.args \
                            and isinstance(value.args[0], ast.Call) and isinstance(value.args[0].func, ast.Name) and value.args[0].func.id == "filter" \
                            and len(value.args[0].args) == 2:
                        f, src = value.args[0].args
                    elif _comprehension_filter(value) is not None:
                        f = _comprehension_filter(value)
                        src = f.iter
                    if f is not None:
                        ts = self._table_expr(src, st, loc)
                        if ts is not None and len(ts) == 1:
                            te = [(ts[0][0], self._apply_filter(f, ts[0][1], fn, st))]
                if te is not None:
                    tv = dict(loc.get("tablevars", {}))
                    tv[tgt.id] = te
                    loc["tablevars"] = tv
                return None
        # result += self._sensors_battery
        if isinstance(node, ast.AugAssign) and isinstance(node.target, ast.Name) and node.target.id in loc.get("tablevars", {}):
            te = self._table_expr(node.value, st, loc)
            if not isinstance(node.op, ast.Add) or te is None:
                raise AnalysisError("update of the table variable %s is not understood: %s (%s)" % (node.target.id, norm(node), fn.loc(node)))
            tv = dict(loc["tablevars"])
            tv[node.target.id] = list(tv[node.target.id]) + te
            loc["tablevars"] = tv
            return None
        for attr, value, kind in stores:
            if value is None:
                continue
            if kind == "aug" and (attr in st.tables or attr.startswith("_sensors")):
                te = self._table_expr(value, st, loc)
                if te is None or attr not in st.tables:
                    raise AnalysisError("update of %s is not understood: %s (%s)" % (attr, norm(node), fn.loc(node)))
                st.tables[attr] = tuple(st.tables[attr]) + tuple(r for _, rows in te for r in rows)
                st.versions[attr] = st.versions.get(attr, 0) + 1
                continue
            if attr in st.flags or attr.startswith("_has_"):
                if isinstance(value, ast.Constant) and isinstance(value.value, bool):
                    st.flags[attr] = value.value
                else:
                    # data dependent flag: both values are possible
                    a, b = st.copy(), st.copy()
                    a.flags[attr], b.flags[attr] = True, False
                    return [(a, dict(loc)), (b, dict(loc))]
            elif attr in st.tables or attr.startswith("_sensors"):
                if isinstance(value, ast.Call) and isinstance(value.func, ast.Name) and value.func.id == "tuple" and value.args \
                        and isinstance(value.args[0], ast.Call) and isinstance(value.args[0].func, ast.Name) and value.args[0].func.id == "filter":
                    f, src = value.args[0].args
                    te = self._table_expr(src, st, loc)
                    if te is None or len(te) != 1:
                        raise AnalysisError("filtered source %s is not a known table (%s)" % (norm(src), fn.loc(node)))
                    st.tables[attr] = self._apply_filter(f, te[0][1], fn, st)
                    st.versions[attr] = st.versions.get(attr, 0) + 1
                elif _comprehension_filter(value) is not None:
                    gen = _comprehension_filter(value)
                    te = self._table_expr(gen.iter, st, loc)
                    if te is None or len(te) != 1:
                        raise AnalysisError("filtered source %s is not a known table (%s)" % (norm(gen.iter), fn.loc(node)))
                    st.tables[attr] = self._apply_filter(gen, te[0][1], fn, st)
                    st.versions[attr] = st.versions.get(attr, 0) + 1
                else:
                    te = self._table_expr(value, st, loc)
                    if te is None and attr in st.tables:
                        rows = self._fold_table_value(value, st, fn)
                        if rows is not None:
                            st.tables[attr] = rows
                            st.versions[attr] = st.versions.get(attr, 0) + 1
                            continue
                    if te is None:
                        if attr not in st.tables:
                            continue      # not one of the sensor tables (e.g. a lookup cache)
                        if isinstance(value, ast.GeneratorExp) or (
                                isinstance(value, ast.Call) and isinstance(value.func, ast.Name)
                                and value.func.id in ("filter", "map", "iter", "reversed", "zip", "enumerate")):
                            from . import StructuralViolation
                            raise StructuralViolation(
                                ("C15",), "one-shot-table:%s:%s" % (self.ci.name, attr), fn.loc(node),
                                "a sensor table is a re-iterable container: it is walked once per read to decode and again "
                                "by sensors(), so both see the same rows",
                                "%s is assigned a one-shot iterator (%s): the first _map_response consumes it, sensors() and "
                                "every later read then see no rows of this block" % (attr, norm(value)))
                        raise AnalysisError("assignment to %s is not understood: %s (%s)" % (attr, norm(node), fn.loc(node)))
                    st.tables[attr] = tuple(r for _, rows in te for r in rows)
                    st.versions[attr] = st.versions.get(attr, 0) + 1
        return None

    def _record_map(self, call: ast.Call, st: FamState, loc, fn):
        if len(call.args) != 2:
            raise AnalysisError("_map_response call with %d arguments (%s)" % (len(call.args), fn.loc(call)))
        resp, tab = call.args
        cmd = loc["resp"].get(resp.id) if isinstance(resp, ast.Name) else None
        te = self._table_expr(tab, st, loc)
        if te is None:
            raise AnalysisError("table argument %s of _map_response is not understood (%s)" % (norm(tab), fn.loc(call)))
        ms = list(loc["mapped"])
        for attr, rows in te:
            ms.append(Mapped(cmd[0] if cmd else None, cmd[1] if cmd else None, attr, rows, call, st.versions.get(attr, 0)))
        loc["mapped"] = ms

    def _exec_call(self, node: ast.Call, st: FamState, loc, fn):
        c = call_chain(node) or ()
        if c and c[-1] == "_map_response":
            # data.update(self._map_response(...)) evaluates the inner call first: record once
            if not any(m.node is node for m in loc["mapped"]):
                self._record_map(node, st, loc, fn)
        if c[-2:] == ("_settings", "update") and node.args and isinstance(node.args[0], ast.DictComp):
            it = node.args[0].generators[0].iter
            if isinstance(it, ast.Attribute) and (self.ci.name, it.attr) in self.tables.tables and it.attr not in st.settings_tables:
                st.settings_tables.append(it.attr)

    # ---------------------------------------------------------------- sensors
    def sensors_of(self, st: FamState, cfg: Config) -> List[Tuple[str, Tuple[Row, ...]]]:
        """Abstract result of sensors() on a state: [(table attr, rows)]"""
        fn = self.ci.methods.get("sensors")
        if fn is None:
            raise AnalysisError("%s.sensors not found" % self.ci.name)
        # attributes sensors() stores itself are a memo of its own result (their coherence is C15.R4's business): the
        # paths that recompute are followed, a test of the memo is taken as a miss
        memo_attrs = {a for n in ast.walk(fn.node) if isinstance(n, ast.stmt) for a, _, _ in self_store(n)}

        def mentions_memo(node) -> bool:
            return any(isinstance(x, ast.Attribute) and isinstance(x.value, ast.Name) and x.value.id == "self" and x.attr in memo_attrs for x in ast.walk(node))
        res = None
        for p in enumerate_paths(self.prog, fn):
            loc: Dict[str, Any] = {"resp": {}, "mapped": [], "choices": [], "pending": None}
            memo: Dict[str, Any] = {}
            ok = True
            stored_memo = False
            for ev in p.events:
                if ev.kind == "test":
                    if memo_attrs and mentions_memo(ev.node):
                        continue
                    v = self._eval_test(ev.node, st, cfg, loc, fn)
                    if v is None:
                        raise AnalysisError("sensors() tests %s which is not a capability flag" % norm(ev.node))
                    if v != ev.data:
                        ok = False
                        break
                elif ev.kind == "stmt":
                    node = ev.node
                    if memo_attrs and isinstance(node, ast.Assign) and any(a in memo_attrs for a, _, _ in self_store(node)):
                        stored_memo = True
                        tgts = node.targets[0]
                        pairs = list(zip(tgts.elts, node.value.elts)) if isinstance(tgts, (ast.Tuple, ast.List)) and isinstance(node.value, (ast.Tuple, ast.List)) \
                            and len(tgts.elts) == len(node.value.elts) else [(t, node.value) for t in node.targets]
                        for t, v in pairs:
                            if isinstance(t, ast.Attribute) and t.attr in memo_attrs:
                                te = self._table_expr(v, st, loc)
                                if te is not None:
                                    memo[t.attr] = te
                        continue
                    self._exec_stmt(node, st.copy(), cfg, loc, fn)
            if not ok or (memo_attrs and not stored_memo):
                continue
            if p.end != "return" or p.end_node.value is None:
                raise AnalysisError("sensors() has a path without a result")
            rv = p.end_node.value
            if isinstance(rv, ast.Attribute) and isinstance(rv.value, ast.Name) and rv.value.id == "self" and rv.attr in memo:
                te = memo[rv.attr]
            else:
                te = self._table_expr(rv, st, loc)
            if te is None:
                raise AnalysisError("sensors() returns %s which is not a concatenation of tables" % norm(p.end_node.value))
            if res is not None and [(a, tuple(r)) for a, r in res] != [(a, tuple(r)) for a, r in te]:
                raise AnalysisError("sensors() has two feasible paths with different results for one state")
            res = te
        if res is None:
            raise AnalysisError("sensors() has no feasible path")
        return res


def _comprehension_filter(value: ast.expr) -> Optional[ast.comprehension]:
    """tuple(s for s in T if c) / tuple([s for s in T if c]) / [s for s in T if c]: the single generator, when the
    element is the loop variable itself (a pure filter)."""
    comp = None
    if isinstance(value, ast.Call) and isinstance(value.func, ast.Name) and value.func.id in ("tuple", "list") and len(value.args) == 1 \
            and isinstance(value.args[0], (ast.GeneratorExp, ast.ListComp)):
        comp = value.args[0]
    elif isinstance(value, ast.ListComp):
        comp = value
    if comp is None or len(comp.generators) != 1:
        return None
    g = comp.generators[0]
    if not (isinstance(g.target, ast.Name) and isinstance(comp.elt, ast.Name) and comp.elt.id == g.target.id) or g.is_async:
        return None
    return g
