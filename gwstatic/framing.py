"""Per-framing layout facts, derived from the command classes themselves.

For each command family (the direct subclasses of ProtocolCommand that define
trim_response) the roles are *derived*, not frozen: the trim slice gives the
header/trailer sizes; the validator is whatever the constructor's lambda calls;
get_offset gives the address -> position map.
"""
from __future__ import annotations

import ast
from typing import Dict, List, Optional, Tuple

from . import AnalysisError
from .model import Program, FuncInfo, ClassInfo, NotConst, norm, node_src
from .calls import Resolver, arg_for
from .symx import Sym, Lin


class Family:
    def __init__(self, cls: ClassInfo):
        self.cls = cls
        self.name = cls.name
        self.head: int = 0
        self.tail: int = 0
        self.validator: Optional[FuncInfo] = None
        self.validator_lambda: Optional[FuncInfo] = None
        self.validator_args: Dict[str, ast.expr] = {}   # validator param -> expression in the lambda call
        self.offset_scale: int = 1                      # get_offset(address) = scale * (address - first)
        self.offset_uses_first: bool = False
        self.kind: str = ""                             # 'rtu' | 'tcp' | 'aa55'
        self.has_checksum: bool = False
        self.cmd_domain: List[int] = []                 # function codes passed by the concrete subclasses
        self.response_types: List[str] = []             # AA55 response type literals at construction sites

    @property
    def fc(self) -> int:        # index of the function code byte (Modbus)
        return self.head - 2

    @property
    def lb(self) -> int:        # index of the length byte
        return self.head - 1

    @property
    def overhead(self) -> int:
        return self.head + self.tail


def _trim_slice(prog: Program, fn: FuncInfo) -> Tuple[int, int]:
    rets = [n for n in ast.walk(fn.node) if isinstance(n, ast.Return)]
    param0 = fn.params[-1]
    conds = [n.test for n in ast.walk(fn.node) if isinstance(n, (ast.If, ast.IfExp)) and any(isinstance(x, ast.Name) and x.id == param0 for x in ast.walk(n.test))]
    if (len(rets) > 1 or any(isinstance(r.value, ast.IfExp) for r in rets)) and conds:
        from . import StructuralViolation
        raise StructuralViolation(
            ("C02", "C12", "C14"), "trim:%s" % fn.cls.name, fn.loc(rets[0]),
            "trim_response cuts header and checksum off by constant amounts: the payload handed to the sensors is the register block the validator accepted",
            "%s.trim_response cuts the payload differently depending on the received bytes (%s), which a conforming answer is free to contain "
            "(e.g. the transaction id it echoes): such an answer is cut at the wrong place, so the request does not succeed with the payload that was sent" % (fn.cls.name, norm(conds[0])))
    if len(rets) != 1 or not isinstance(rets[0].value, ast.Subscript) or not isinstance(rets[0].value.slice, ast.Slice):
        raise AnalysisError("trim_response of %s is not a single slice (%s)" % (fn.cls.name, fn.loc()))
    sl = rets[0].value.slice
    param = fn.params[-1]
    base = rets[0].value.value
    if isinstance(base, ast.Call) and isinstance(base.func, ast.Attribute) and isinstance(base.func.value, ast.Name) and base.func.value.id == param \
            and base.func.attr in ("strip", "lstrip", "rstrip", "replace", "removeprefix", "removesuffix", "translate", "split", "partition", "rpartition"):
        from . import StructuralViolation
        raise StructuralViolation(
            ("C02", "C12", "C14"), "trim:%s" % fn.cls.name, fn.loc(rets[0]),
            "trim_response cuts header and checksum off by constant amounts: the payload handed to the sensors is the register block the validator accepted",
            "%s.trim_response slices %s, whose length depends on the received bytes (%s() removes by content, e.g. a bus address or payload byte that happens to equal a header byte): "
            "a conforming answer is then cut at the wrong place, so the request does not succeed with the payload that was sent" % (fn.cls.name, norm(base)[:60], base.func.attr))
    if not (isinstance(base, ast.Name) and base.id == param):
        raise AnalysisError("trim_response of %s does not slice its argument" % fn.cls.name)
    try:
        lo = prog.consteval(sl.lower, fn.module) if sl.lower is not None else 0
        hi = prog.consteval(sl.upper, fn.module) if sl.upper is not None else 0
    except NotConst:
        # a bound computed from the response itself: which of its bytes does it read?
        reads = []
        for b in (sl.lower, sl.upper):
            for n in ast.walk(b) if b is not None else []:
                if isinstance(n, ast.Subscript) and isinstance(n.value, ast.Name) and n.value.id == param:
                    reads.append(norm(n))
        try:
            lo = prog.consteval(sl.lower, fn.module) if sl.lower is not None else 0
        except NotConst:
            lo = None
        pinned = "%s[%d]" % (param, lo - 1) if lo else None       # the byte count, which the validators compare with 2 x count
        if reads and any(r != pinned for r in reads):
            from . import StructuralViolation
            raise StructuralViolation(
                ("C12", "C14"), "trim:%s" % fn.cls.name, fn.loc(rets[0]),
                "trim_response cuts header and checksum off by constant amounts: the payload handed to the sensors is the register block the validator accepted",
                "%s.trim_response cuts the payload at a position computed from %s of the received frame, which the response validator does not check: a full-length, accepted answer "
                "can be cut short (or shifted), so sensors of the block are decoded from missing bytes / other registers" % (fn.cls.name, ", ".join(sorted(set(reads)))))
        raise AnalysisError("trim_response slice of %s is not constant" % fn.cls.name)
    if sl.step is not None or lo < 0 or hi > 0:
        raise AnalysisError("trim_response slice of %s has an unexpected shape [%s:%s]" % (fn.cls.name, lo, hi))
    return lo, -hi


def families(prog: Program, res: Resolver) -> Dict[str, Family]:
    base = prog.cls("ProtocolCommand")
    out: Dict[str, Family] = {}
    for ci in prog.all_subclasses(base, include_self=False):
        if "trim_response" not in ci.methods:
            continue
        fam = Family(ci)
        fam.head, fam.tail = _trim_slice(prog, ci.methods["trim_response"])
        # validator: the lambda handed to ProtocolCommand.__init__ by this class' __init__
        init = ci.methods.get("__init__")
        if init is None:
            raise AnalysisError("%s has no __init__" % ci.name)
        lam = None
        for n in ast.walk(init.node):
            if isinstance(n, ast.Call) and isinstance(n.func, ast.Attribute) and n.func.attr == "__init__":
                for a in list(n.args) + [k.value for k in n.keywords]:
                    if isinstance(a, ast.Lambda):
                        lam = a
        if lam is None:
            raise AnalysisError("%s.__init__ does not pass a validator lambda" % ci.name)
        fam.validator_lambda = prog.func_of(lam)
        if not isinstance(lam.body, ast.Call):
            raise AnalysisError("validator lambda of %s is not a single call" % ci.name)
        ct = res.resolve_call(lam.body, fam.validator_lambda)
        if len(ct.funcs) != 1:
            raise AnalysisError("validator lambda of %s does not resolve to one function: %r" % (ci.name, ct))
        fam.validator = ct.funcs[0]
        vparams = fam.validator.params
        if fam.validator.cls is not None and not fam.validator.is_static:
            vparams = vparams[1:]
        for i, a in enumerate(lam.body.args):
            if i < len(vparams):
                fam.validator_args[vparams[i]] = a
        for k in lam.body.keywords:
            fam.validator_args[k.arg] = k.value
        # get_offset
        go = prog.find_method(ci, "get_offset")
        if go is None or go.cls is base:
            fam.offset_scale, fam.offset_uses_first = 1, False
        else:
            rets = [n for n in ast.walk(go.node) if isinstance(n, ast.Return)]
            if len(rets) != 1:
                raise AnalysisError("get_offset of %s has %d returns" % (ci.name, len(rets)))
            s = Sym.for_function(prog, go)
            l = s.lin(rets[0].value)
            addr = ("var", go.params[-1])
            first = ("attr", ("var", "self"), "first_address")
            if set(l.terms) == {addr, first} and l.const == 0 and l.terms[addr] == -l.terms[first] and l.terms[addr] > 0:
                fam.offset_scale, fam.offset_uses_first = int(l.terms[addr]), True
            elif set(l.terms) == {addr} and l.const == 0:
                fam.offset_scale, fam.offset_uses_first = int(l.terms[addr]), False
            else:
                fam.offset_scale, fam.offset_uses_first = 0, False  # reported by the layout rule
        fam.has_checksum = fam.tail == 2
        if "aa55" in fam.validator.name.lower() or fam.validator.cls is not None:
            fam.kind = "aa55"
        elif fam.tail == 2:
            fam.kind = "rtu"
        else:
            fam.kind = "tcp"
        # domain of the cmd / response_type arguments at the construction sites of the concrete subclasses
        for sub in prog.all_subclasses(ci, include_self=False):
            sinit = sub.methods.get("__init__")
            if sinit is None:
                continue
            for n in ast.walk(sinit.node):
                if isinstance(n, ast.Call) and isinstance(n.func, ast.Attribute) and n.func.attr == "__init__":
                    for pname in ("cmd", "response_type"):
                        if pname in init.params:
                            a = arg_for(n, init, pname)
                            if a is None:
                                continue
                            try:
                                v = prog.consteval(a, sub.module)
                            except NotConst:
                                raise AnalysisError("%s passes a non-constant %s (%s)" % (sub.name, pname, node_src(a)))
                            (fam.cmd_domain if pname == "cmd" else fam.response_types).append(v)
        out[ci.name] = fam
    if len(out) < 3:
        raise AnalysisError("expected three command families (RTU, TCP, AA55), found %s" % sorted(out))
    return out


def aa55_construction_sites(prog: Program, res: Resolver):
    """Every direct construction Aa55ProtocolCommand(payload, response_type, ...) in the package:
    [(fn, call)]"""
    target = prog.cls("Aa55ProtocolCommand")
    sites = []
    for fn in res.all_funcs():
        for ct in res.calls_of(fn):
            if ct.ctor is target:
                sites.append((fn, ct.node))
            elif ct.funcs and any(f.cls is target and f.name == "__init__" for f in ct.funcs) and ct.ctor is None:
                sites.append((fn, ct.node))   # super().__init__ from a subclass
    # a construction inside a helper outside the pinned inventory whose payload / response type come from the helper's
    # parameters is specialised per call site of the helper (one virtual construction per caller, arguments substituted)
    from .inventory import is_known
    from .astutil import subst
    from .calls import arg_for
    out = []
    for fn, call in sites:
        params = set(fn.params) - {"self", "cls"} if not fn.is_lambda else set()
        uses = {n.id for a in list(call.args) + [k.value for k in call.keywords] for n in ast.walk(a) if isinstance(n, ast.Name)} & params
        callers = res.callers_of(fn) if uses and not is_known(fn, prog) and fn.name != "__init__" else []
        if not callers:
            out.append((fn, call))
            continue
        for ct in callers:
            env = {}
            for pn in fn.params:
                a = arg_for(ct.node, fn, pn)
                if a is not None and pn not in ("self", "cls"):
                    env[pn] = a
            out.append((ct.caller, ast.fix_missing_locations(ast.copy_location(subst(call, env), ct.node))))
    return out
