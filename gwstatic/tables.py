"""Static extraction of the sensor / setting tables and read commands of the inverter families.

Each ``Voltage("vpv1", 35103, ...)`` row is bound through the ``__init__`` chain of its class up to the
``Sensor`` dataclass, giving id_, offset, size_, unit, kind and the extra attributes (scale, labels,
getter lambda, offsetL ...) - without importing the package."""
from __future__ import annotations

import ast
from typing import Any, Dict, List, Optional, Tuple

from . import AnalysisError
from .model import Program, ClassInfo, FuncInfo, Module, NotConst, EnumVal, UNKNOWN, norm, node_src
from .calls import Resolver, arg_for


class Opaque:
    """A value the extractor keeps as syntax (not constant-foldable)."""

    def __init__(self, node: ast.AST, mod: Module):
        self.node, self.mod = node, mod

    def __repr__(self):
        return "<%s>" % norm(self.node)[:60]


class Row:
    def __init__(self, cls: ClassInfo, call: ast.Call, table: str, owner: ClassInfo, index: int):
        self.cls, self.call, self.table, self.owner, self.index = cls, call, table, owner, index
        self.attrs: Dict[str, Any] = {}

    @property
    def id_(self) -> str:
        return self.attrs.get("id_")

    @property
    def offset(self) -> int:
        return self.attrs.get("offset")

    @property
    def size_(self) -> int:
        return self.attrs.get("size_")

    def where(self) -> str:
        return "%s:%d" % (self.owner.module.relpath, self.call.lineno)

    def __repr__(self):
        return "<%s %s@%s in %s.%s>" % (self.cls.name, self.id_, self.offset, self.owner.name, self.table)


def _dataclass_fields(ci: ClassInfo) -> List[str]:
    return [k for k in ci.class_attr_ann.keys()]


def instantiate(prog: Program, ci: ClassInfo, args: List[Any], kwargs: Dict[str, Any], mod_of_call: Module, depth=0, start_after: Optional[ClassInfo] = None) -> Dict[str, Any]:
    """Attributes of ``ci(*args, **kwargs)`` by abstractly running the __init__ chain."""
    if depth > 8:
        raise AnalysisError("__init__ chain too deep for %s" % ci.name)
    init = prog.find_method(ci, "__init__", after=start_after)
    attrs: Dict[str, Any] = {}
    if init is None:
        # dataclass: fields in declaration order along the MRO (only Sensor here)
        for c in prog.mro(ci):
            if isinstance(c, ClassInfo) and any("dataclass" in d for d in [node_src(x) for x in c.node.decorator_list]):
                fields = _dataclass_fields(c)
                for i, f in enumerate(fields):
                    if i < len(args):
                        attrs[f] = args[i]
                    elif f in kwargs:
                        attrs[f] = kwargs[f]
                return attrs
        return attrs
    params = init.params[1:]
    env: Dict[str, Any] = {}
    a = init.node.args
    defaults = a.defaults
    allp = [x.arg for x in a.posonlyargs + a.args][1:]
    for i, p in enumerate(allp):
        if i < len(args):
            env[p] = args[i]
        elif p in kwargs:
            env[p] = kwargs[p]
        else:
            di = i - (len(allp) - len(defaults))
            if 0 <= di < len(defaults):
                env[p] = _value(prog, defaults[di], init.module, {}, init.cls)
            else:
                raise AnalysisError("missing argument %s for %s.__init__" % (p, init.cls.name))
    for st in init.node.body:
        if isinstance(st, ast.Expr) and isinstance(st.value, ast.Call):
            c = st.value
            if isinstance(c.func, ast.Attribute) and c.func.attr == "__init__" and isinstance(c.func.value, ast.Call) \
                    and isinstance(c.func.value.func, ast.Name) and c.func.value.func.id == "super":
                sargs = [_value(prog, x, init.module, env, init.cls) for x in c.args]
                skw = {k.arg: _value(prog, k.value, init.module, env, init.cls) for k in c.keywords}
                attrs.update(instantiate(prog, ci, sargs, skw, init.module, depth + 1, start_after=init.cls))
                continue
        tgt = val = None
        if isinstance(st, ast.Assign) and len(st.targets) == 1:
            tgt, val = st.targets[0], st.value
        elif isinstance(st, ast.AnnAssign) and st.value is not None:
            tgt, val = st.target, st.value
        if tgt is not None and isinstance(tgt, ast.Attribute) and isinstance(tgt.value, ast.Name) and tgt.value.id == "self":
            attrs[tgt.attr] = _value(prog, val, init.module, env, init.cls)
    return attrs


def _value(prog: Program, e: ast.expr, mod: Module, env: Dict[str, Any], cls: Optional[ClassInfo]) -> Any:
    if isinstance(e, ast.Name) and e.id in env:
        return env[e.id]
    if isinstance(e, ast.Lambda):
        return Opaque(e, mod)
    try:
        cenv = {k: (v if not isinstance(v, Opaque) else UNKNOWN) for k, v in env.items()}
        return prog.consteval(e, mod, cenv, cls)
    except NotConst:
        return Opaque(e, mod)


class Tables:
    def __init__(self, prog: Program, res: Resolver):
        self.prog, self.res = prog, res
        self.sensor_base = prog.cls("Sensor")
        self.families: Dict[str, ClassInfo] = {}
        inv = prog.cls("Inverter")
        for ci in prog.all_subclasses(inv, include_self=False):
            self.families[ci.name] = ci
        self.tables: Dict[Tuple[str, str], List[Row]] = {}
        for fam in self.families.values():
            for attr, value in fam.class_attrs.items():
                if isinstance(value, ast.Tuple) and value.elts and all(isinstance(x, ast.Call) for x in value.elts):
                    rows = self._rows(fam, attr, value)
                    if rows is not None:
                        self.tables[(fam.name, attr)] = rows

    def _rows(self, fam: ClassInfo, attr: str, value: ast.Tuple) -> Optional[List[Row]]:
        rows = []
        for i, call in enumerate(value.elts):
            if not isinstance(call.func, ast.Name):
                return None
            b = self.prog.lookup(fam.module, call.func.id)
            if not b or b[0] != "class" or not self.prog.is_subclass(b[1], self.sensor_base):
                return None
            ci = b[1]
            args = [_value(self.prog, a, fam.module, {}, fam) for a in call.args]
            kw = {k.arg: _value(self.prog, k.value, fam.module, {}, fam) for k in call.keywords}
            row = Row(ci, call, attr, fam, i)
            row.attrs = instantiate(self.prog, ci, args, kw, fam.module)
            for need in ("id_", "offset", "size_"):
                if need not in row.attrs or isinstance(row.attrs[need], Opaque):
                    raise AnalysisError("table %s.%s row %d (%s): %s is not a constant" % (fam.name, attr, i, norm(call)[:50], need))
            rows.append(row)
        return rows

    def table(self, family: str, attr: str) -> List[Row]:
        k = (family, attr)
        if k not in self.tables:
            raise AnalysisError("table %s.%s not found" % (family, attr))
        return self.tables[k]

    def all_rows(self) -> List[Row]:
        return [r for rows in self.tables.values() for r in rows]

    def is_settings_table(self, attr: str) -> bool:
        return "setting" in attr

    def sensor_tables(self, family: str) -> List[str]:
        return [a for (f, a) in self.tables if f == family and not self.is_settings_table(a)]

    def settings_tables(self, family: str) -> List[str]:
        return [a for (f, a) in self.tables if f == family and self.is_settings_table(a)]


def read_commands(prog: Program, res: Resolver, fam: ClassInfo) -> Dict[str, Tuple[int, int, ast.AST]]:
    """self._READ_X = self._read_command(first, count) in __init__  ->  {attr: (first, count, node)}"""
    out: Dict[str, Tuple[int, int, ast.AST]] = {}
    init = fam.methods.get("__init__")
    if init is None:
        return out
    for n in ast.walk(init.node):
        tgt = val = None
        if isinstance(n, ast.AnnAssign) and n.value is not None:
            tgt, val = n.target, n.value
        elif isinstance(n, ast.Assign) and len(n.targets) == 1:
            tgt, val = n.targets[0], n.value
        if tgt is not None and isinstance(tgt, ast.Attribute) and isinstance(val, ast.Call) and isinstance(val.func, ast.Attribute) \
                and val.func.attr == "_read_command" and len(val.args) == 2:
            try:
                first = prog.consteval(val.args[0], init.module)
                count = prog.consteval(val.args[1], init.module)
            except NotConst:
                raise AnalysisError("%s.%s: read command arguments are not constant" % (fam.name, tgt.attr))
            out[tgt.attr] = (first, count, val)
    return out
