"""Canonicalisation of renamed private identifiers.

The rules know the package's private methods and attributes by the names they have on the pinned tree
(`_close_transport`, `_partial_data`, ...).  A later change may rename them consistently without changing behaviour.
Before the program model is built, identifiers of the pinned vocabulary that *vanished* from the package are matched
against identifiers that are *new* (absent from the pinned vocabulary) by their usage profile - in which functions they
occur and how (defined, called, loaded, stored, stored as which constant).  A confident one-to-one match is undone on
the syntax trees (new name -> pinned name), so that every rule sees the vocabulary it was written for.  Anything less
than a confident match is left alone (the rules then stop with "anchor vanished", exit 2)."""
from __future__ import annotations

import ast
import difflib
from collections import Counter
from typing import Dict, List, Tuple


def _qual(stack: List[str]) -> str:
    return ".".join(stack) if stack else "<module>"


def profiles(trees: Dict[str, ast.AST]) -> Dict[str, Counter]:
    """identifier -> multiset of (enclosing function / class, how it is used) for attribute names and def names."""
    out: Dict[str, Counter] = {}

    def add(name: str, where: str, how: str):
        out.setdefault(name, Counter())[(where, how)] += 1

    def visit(node: ast.AST, stack: List[str], parent: ast.AST = None):
        if isinstance(node, (ast.FunctionDef, ast.AsyncFunctionDef)):
            add(node.name, _qual(stack), "def")
            stack = stack + [node.name]
        elif isinstance(node, ast.ClassDef):
            stack = stack + [node.name]
        if isinstance(node, ast.Attribute):
            how = "load"
            if isinstance(node.ctx, ast.Store):
                how = "store"
                if isinstance(parent, (ast.Assign, ast.AnnAssign)) and isinstance(getattr(parent, "value", None), ast.Constant):
                    how = "store:%r" % (parent.value.value,)
            elif isinstance(parent, ast.Call) and parent.func is node:
                how = "call"
            add(node.attr, _qual(stack), how)
        for child in ast.iter_child_nodes(node):
            visit(child, stack, node)

    for modname, tree in sorted(trees.items()):
        visit(tree, [modname.split(".")[-1]])
    return out


def _sim(a: Counter, b: Counter, fmap: Dict[str, str]) -> float:
    """Weighted Jaccard of two usage profiles; function names of *a* are first mapped through the renames found so far."""
    def norm(c: Counter) -> Counter:
        o: Counter = Counter()
        for (where, how), k in c.items():
            parts = where.split(".")
            parts = [fmap.get(p, p) for p in parts]
            o[(".".join(parts), how)] += k
        return o
    a, b = norm(a), norm(b)
    inter = sum((a & b).values())
    union = sum((a | b).values())
    return inter / union if union else 0.0


def find_renames(pinned: Dict[str, Counter], current: Dict[str, Counter]) -> Dict[str, str]:
    """{new name: pinned name} for confident matches of vanished pinned identifiers with new identifiers."""
    vanished = [x for x in pinned if x not in current and x.startswith("_") and not x.startswith("__")]
    fresh = [y for y in current if y not in pinned and y.startswith("_") and not y.startswith("__")]
    result: Dict[str, str] = {}
    if not vanished or not fresh:
        return result
    for _ in range(3):
        fmap = dict(result)      # new -> pinned, applied to the *current* profiles' function names
        changed = False
        cand: List[Tuple[float, str, str]] = []
        for x in vanished:
            if x in result.values():
                continue
            for y in fresh:
                if y in result:
                    continue
                s = _sim(current[y], pinned[x], fmap)
                if s > 0:
                    s += 0.05 * difflib.SequenceMatcher(None, x, y).ratio()     # tie-break: _partial_missing ~ _fragment_missing
                    cand.append((s, x, y))
        cand.sort(reverse=True)
        for s, x, y in cand:
            if x in result.values() or y in result:
                continue
            rivals = [s2 for s2, x2, y2 in cand if (x2 == x) != (y2 == y) and x2 not in result.values() and y2 not in result]
            if s >= 0.45 and all(s - s2 >= 0.02 for s2 in rivals):
                result[y] = x
                changed = True
        if not changed:
            break
    return result


class _Renamer(ast.NodeVisitor):
    def __init__(self, mapping: Dict[str, str]):
        self.m = mapping

    def generic_visit(self, node):
        if isinstance(node, ast.Attribute) and node.attr in self.m:
            node.attr = self.m[node.attr]
        elif isinstance(node, (ast.FunctionDef, ast.AsyncFunctionDef)) and node.name in self.m:
            node.name = self.m[node.name]
        elif isinstance(node, ast.Name) and node.id in self.m:
            node.id = self.m[node.id]
        elif isinstance(node, ast.keyword) and node.arg in self.m:
            node.arg = self.m[node.arg]
        super().generic_visit(node)


def canonicalise(trees: Dict[str, ast.AST]) -> Dict[str, str]:
    from .inventory import PINNED_IDENTS
    pinned = {k: Counter({tuple(e[:2]): e[2] for e in v}) for k, v in PINNED_IDENTS.items()}
    mapping = find_renames(pinned, profiles(trees))
    if mapping:
        r = _Renamer(mapping)
        for t in trees.values():
            r.visit(t)
    return mapping
