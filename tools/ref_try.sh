#!/bin/sh
# tools/ref_try.sh <repo dir> [Cxx ...]: run quick checks against another tree without touching /repo or the evidence
R="$1"; shift
[ $# -eq 0 ] && set -- $(seq -f "C%02g" 1 20)
cd /verif
for P in "$@"; do
  ( out=$(GOODWE_REPO="$R" GWSTATIC_EVIDENCE_DIR=/tmp/try-ev GWSTATIC_OUT_DIR=/tmp/try-out ./check $P 2>&1); rc=$?
    if [ $rc -ne 0 ]; then echo "== $P rc=$rc"; echo "$out" | grep -E "violated|ANALYSIS-ERROR|Traceback|Error" | head -${MAXL:-6} | cut -c1-${MAXC:-420}; else echo "== $P ok"; fi ) &
done
wait
