#!/usr/bin/env python3
"""tools/seed_recheck.py <seed name>...  - after a rule was refined: run every registered quick check again against a
kept seeded change (applied to /repo with git apply, undone with git checkout -- .) and rewrite the detected_by part of
its meta.json / result.txt / detected_by_*.txt.  The confirmation part (suite, demonstration) is left as recorded."""
import json, os, subprocess, sys, glob
V = os.path.dirname(os.path.dirname(os.path.abspath(__file__)))
pids = [c["property_id"] for c in json.load(open(os.path.join(V, "MANIFEST.json")))["checks"]]
for name in sys.argv[1:]:
    d = os.path.join(V, "seeded", name)
    meta = json.load(open(os.path.join(d, "meta.json")))
    assert subprocess.run(["git", "-C", "/repo", "status", "--short"], capture_output=True, text=True).stdout.strip() == "", "/repo not clean"
    subprocess.run(["git", "-C", "/repo", "apply", os.path.join(d, "patch.diff")], check=True)
    det = {}
    try:
        env = dict(os.environ, GWSTATIC_EVIDENCE_DIR="/tmp/seed-evidence", GWSTATIC_OUT_DIR="/tmp/seed-out")
        for pid in pids:
            r = subprocess.run([os.path.join(V, "check"), pid], capture_output=True, text=True, env=env, cwd=V)
            if r.returncode != 0:
                det[pid] = (r.returncode, [ln.strip()[:300] for ln in r.stdout.splitlines() if "violated" in ln or "ANALYSIS-ERROR" in ln][:3])
    finally:
        subprocess.run(["git", "-C", "/repo", "checkout", "--", "."], check=True)
        subprocess.run(["rm", "-rf", "/tmp/seed-evidence", "/tmp/seed-out"])
    for f in glob.glob(os.path.join(d, "detected_by_*.txt")):
        os.remove(f)
    for pid, (rc, lines) in det.items():
        open(os.path.join(d, "detected_by_%s.txt" % pid), "w").write("\n".join(lines) + "\n")
    before = sorted(meta.get("detected_by") or {})
    meta["detected_by"] = {pid: lines[:2] for pid, (rc, lines) in sorted(det.items())}
    meta.setdefault("rechecked", []).append("detected_by refreshed by tools/seed_recheck.py (was: %s)" % ", ".join(before))
    json.dump(meta, open(os.path.join(d, "meta.json"), "w"), indent=1)
    res = [l for l in open(os.path.join(d, "result.txt")) if not l.startswith("detected_by:")]
    res.append("detected_by: %s\n" % (" ".join("%s(rc=%d)" % (p, rc) for p, (rc, _) in sorted(det.items())) or "NONE"))
    open(os.path.join(d, "result.txt"), "w").writelines(res)
    print(name, "detected by", sorted(det))
