#!/usr/bin/env python3
"""tools/refactor_prompts.py <name>=<files description> ...  - worktrees /tmp/seed/R-<name> and prompts for behaviour-preserving refactorings"""
import os, subprocess, sys
T = open('/verif/tools/refactor_prompt_template.txt').read()
for arg in sys.argv[1:]:
    name, files = arg.split('=', 1)
    wt = '/tmp/seed/R-%s' % name
    if not os.path.exists(wt):
        subprocess.run(['git', '-C', '/repo', 'worktree', 'add', '-q', '--detach', wt, 'HEAD'], check=True)
    open('/tmp/seed/prompt_R-%s.txt' % name, 'w').write(T.format(wt=wt, files=files))
    print('ready', wt)
