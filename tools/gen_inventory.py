#!/usr/bin/env python3
"""tools/gen_inventory.py - regenerate gwstatic/inventory.py (function inventory + identifier usage profiles) from /repo.
Run ONLY on the pinned tree (with the fix commits); the result is committed and frozen."""
import ast, os, sys
sys.path.insert(0, "/verif")
from gwstatic.renames import profiles
repo = os.environ.get("GOODWE_REPO", "/repo")
trees = {}
for fn in sorted(os.listdir(os.path.join(repo, "goodwe"))):
    if fn.endswith(".py"):
        name = "goodwe" if fn == "__init__.py" else "goodwe." + fn[:-3]
        trees[name] = ast.parse(open(os.path.join(repo, "goodwe", fn), encoding="utf-8").read())
prof = profiles(trees)
src = open("/verif/gwstatic/inventory.py").read()
head = src[:src.index("\ndef is_known")] if "PINNED_IDENTS" not in src else src[:src.index("\nPINNED_IDENTS")]
tail = src[src.index("\ndef is_known"):]
body = "\nPINNED_IDENTS = {\n"
for k in sorted(prof):
    body += "    %r: %r,\n" % (k, sorted([w, h, c] for (w, h), c in prof[k].items()))
body += "}\n\n"
open("/verif/gwstatic/inventory.py", "w").write(head.rstrip("\n") + "\n" + body + tail.lstrip("\n"))
print("identifiers:", len(prof))
