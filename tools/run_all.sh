#!/bin/sh
# run every quick check against $GOODWE_REPO (default /repo), 8 at a time; print the exit code and last line of each
cd /verif
for p in $(seq -w 1 20); do
  ( out=$(./check C$p "$@" 2>&1); rc=$?; echo "C$p rc=$rc $(echo "$out" | tail -1 | cut -c1-150)" ) &
  [ $((${p#0} % 8)) -eq 0 ] && wait
done
wait
