#!/usr/bin/env python3
"""tools/feature_prompts.py <name>=<what> ...  - worktrees /tmp/seed/F-<name> and prompts for behaviour-preserving feature additions"""
import os, subprocess, sys
T = open('/verif/tools/feature_prompt_template.txt').read()
for arg in sys.argv[1:]:
    name, what = arg.split('=', 1)
    wt = '/tmp/seed/F-%s' % name
    if not os.path.exists(wt):
        subprocess.run(['git', '-C', '/repo', 'worktree', 'add', '-q', '--detach', wt, 'HEAD'], check=True)
    open('/tmp/seed/prompt_F-%s.txt' % name, 'w').write(T.format(wt=wt, what=what))
    print('ready', wt)
