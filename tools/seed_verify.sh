#!/bin/sh
# tools/seed_verify.sh <agent worktree> <property id> <seed name>
# Confirms a seeded change independently (fresh scratch worktree of /repo HEAD): the suite passes with the
# change, the demonstration fails with it and passes without it; then runs every registered quick check
# against it (applied to /repo and undone straight afterwards) and stores everything under /verif/seeded/<name>/.
set -u
SRC="$1"; PID="$2"; NAME="$3"
OUT=/verif/seeded/$NAME
WT=$(mktemp -d /tmp/seedverify-XXXXXX)
rmdir "$WT"
git -C /repo worktree add -q --detach "$WT" HEAD || exit 2
mkdir -p "$OUT"
cp "$SRC/patch.diff" "$OUT/patch.diff"
DEMO=$(ls "$SRC"/demo_*.py | head -1)
cp "$DEMO" "$OUT/$(basename "$DEMO")"
cp "$DEMO" "$WT/"
D=$(basename "$DEMO")
# the demo hard-codes the agent's worktree path: point it at the verification worktree
sed -i "s#$SRC#$WT#g" "$WT/$D"
cd "$WT" || exit 2
/venv/bin/python "$D" >"$OUT/demo_without_change.log" 2>&1; RC_WITHOUT=$?
git apply "$OUT/patch.diff" || { echo "patch does not apply"; git -C /repo worktree remove --force "$WT"; exit 2; }
/venv/bin/python -m pytest -q -p no:cacheprovider >"$OUT/suite_with_change.log" 2>&1; RC_SUITE=$?
/venv/bin/python "$D" >"$OUT/demo_with_change.log" 2>&1; RC_WITH=$?
cd /verif
git -C /repo worktree remove --force "$WT"
SUITE=$(tail -1 "$OUT/suite_with_change.log")
echo "suite with change: rc=$RC_SUITE ($SUITE); demo with change rc=$RC_WITH; demo without change rc=$RC_WITHOUT"
# our checks against it
git -C /repo apply "$OUT/patch.diff" || exit 2
DET=""
for P in $(python3 -c "import json;print(' '.join(c['property_id'] for c in json.load(open('/verif/MANIFEST.json'))['checks']))"); do
  GWSTATIC_EVIDENCE_DIR=/tmp/seed-evidence GWSTATIC_OUT_DIR=/tmp/seed-out ./check "$P" >"/tmp/seed-check-$P.log" 2>&1; RC=$?
  if [ $RC -ne 0 ]; then DET="$DET $P(rc=$RC)"; grep -E "violated|ANALYSIS-ERROR" "/tmp/seed-check-$P.log" | head -3 | cut -c1-300 > "$OUT/detected_by_$P.txt"; fi
done
git -C /repo checkout -- .
rm -rf /tmp/seed-evidence /tmp/seed-out /tmp/seed-check-*.log
echo "detected by:${DET:- NONE}"
cat > "$OUT/result.txt" <<EOF
property: $PID
suite_with_change_rc: $RC_SUITE ($SUITE)
demo_with_change_rc: $RC_WITH
demo_without_change_rc: $RC_WITHOUT
detected_by:${DET:- NONE}
EOF
