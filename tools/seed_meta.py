#!/usr/bin/env python3
"""tools/seed_meta.py <seed name> <property> <origin> <needs...>  - writes seeded/<name>/meta.json from result.txt"""
import json, os, sys
name, pid, origin, needs = sys.argv[1], sys.argv[2], sys.argv[3], " ".join(sys.argv[4:])
d = os.path.join(os.path.dirname(os.path.dirname(os.path.abspath(__file__))), "seeded", name)
res = dict(l.strip().split(": ", 1) for l in open(os.path.join(d, "result.txt")) if ": " in l)
det = {}
for f in sorted(os.listdir(d)):
    if f.startswith("detected_by_"):
        det[f[len("detected_by_"):-4]] = open(os.path.join(d, f)).read().strip().splitlines()[:2]
meta = {
    "breaks_property": pid,
    "origin": origin,
    "needs_to_manifest": needs,
    "confirmed": {
        "how": "tools/seed_verify.sh: fresh scratch worktree of /repo HEAD; demo run without the change, patch applied, full test suite, demo run with the change; worktree removed",
        "suite_with_change": res.get("suite_with_change_rc"),
        "demo_with_change_rc": res.get("demo_with_change_rc"),
        "demo_without_change_rc": res.get("demo_without_change_rc"),
    },
    "checks_run": "every quick check registered in MANIFEST.json at the time, against /repo with the patch applied (git apply; undone with git checkout -- .)",
    "detected_by": det,
}
json.dump(meta, open(os.path.join(d, "meta.json"), "w"), indent=1)
print("wrote", os.path.join(d, "meta.json"), "detected by", list(det) or "NONE")
