#!/venv/bin/python
"""tools/mutscan.py [--n N] [--seed S] [--files a.py,b.py] [--out DIR]

Hole hunting for the checks (development aid, not a registered check): generate single-point syntactic mutants of
goodwe/*.py (comparison / arithmetic / boolean operator swaps, integer constants +-1, deleted statements, negated
conditions, swapped call arguments), keep those on which the pinned test suite still passes (only the analysed
package is executed here - by its own test suite, in a scratch copy under /tmp; the checks themselves never run it),
run all 20 quick checks on each survivor and write, per mutant, the diff and which checks reported it.  Survivors
that no check reports are listed for triage: equivalent mutant, behaviour outside the 20 properties, or a hole.
"""
from __future__ import annotations

import argparse
import ast
import copy
import difflib
import json
import os
import random
import shutil
import subprocess
import sys
import tempfile
from concurrent.futures import ProcessPoolExecutor

REPO = os.environ.get("GOODWE_REPO", "/repo")
VERIF = os.path.dirname(os.path.dirname(os.path.abspath(__file__)))

CMP = {ast.Lt: ast.LtE, ast.LtE: ast.Lt, ast.Gt: ast.GtE, ast.GtE: ast.Gt, ast.Eq: ast.NotEq, ast.NotEq: ast.Eq, ast.Is: ast.IsNot, ast.IsNot: ast.Is,
       ast.In: ast.NotIn, ast.NotIn: ast.In}
BIN = {ast.Add: ast.Sub, ast.Sub: ast.Add, ast.Mult: ast.FloorDiv, ast.FloorDiv: ast.Mult, ast.LShift: ast.RShift, ast.RShift: ast.LShift,
       ast.BitAnd: ast.BitOr, ast.BitOr: ast.BitAnd, ast.Div: ast.Mult, ast.Mod: ast.FloorDiv}


def sites(tree: ast.Module):
    """[(kind, path)] where path addresses a node: list of (field, index|None) from the module."""
    out = []

    def walk(node, path, in_func, in_table):
        for field, value in ast.iter_fields(node):
            items = value if isinstance(value, list) else [value]
            for i, child in enumerate(items):
                if not isinstance(child, ast.AST):
                    continue
                p = path + [(field, i if isinstance(value, list) else None)]
                f = in_func or isinstance(child, (ast.FunctionDef, ast.AsyncFunctionDef, ast.Lambda))
                if f:
                    if isinstance(child, ast.Compare) and len(child.ops) == 1 and type(child.ops[0]) in CMP:
                        out.append(("cmp", p))
                    if isinstance(child, ast.BinOp) and type(child.op) in BIN:
                        out.append(("bin", p))
                    if isinstance(child, ast.BoolOp):
                        out.append(("bool", p))
                    if isinstance(child, ast.UnaryOp) and isinstance(child.op, ast.Not):
                        out.append(("unnot", p))
                    if isinstance(child, ast.If):
                        out.append(("negif", p))
                    if isinstance(child, ast.Constant) and isinstance(child.value, int) and not isinstance(child.value, bool) and 0 <= child.value <= 70000:
                        out.append(("const+", p))
                        out.append(("const-", p))
                    if isinstance(child, ast.Constant) and isinstance(child.value, bool):
                        out.append(("boolconst", p))
                    if isinstance(child, (ast.Expr, ast.Assign, ast.AugAssign)) and isinstance(value, list) and len(value) > 1 and field in ("body", "orelse", "finalbody") \
                            and not (isinstance(child, ast.Expr) and isinstance(child.value, ast.Constant)) \
                            and not (isinstance(child, ast.Expr) and isinstance(child.value, ast.Call) and ast.unparse(child.value.func).startswith("logger.")):
                        out.append(("delstmt", p))
                    if isinstance(child, ast.Call) and len(child.args) >= 2 and not any(isinstance(a, ast.Starred) for a in child.args) \
                            and not ast.unparse(child.func).startswith("logger."):
                        out.append(("swapargs", p))
                    if isinstance(child, ast.Return) and child.value is not None and isinstance(child.value, ast.Constant) and isinstance(child.value.value, bool):
                        out.append(("flipret", p))
                elif isinstance(child, ast.Constant) and isinstance(child.value, int) and not isinstance(child.value, bool) and in_table and 0 < child.value <= 70000:
                    out.append(("const+", p))      # sensor table offsets / sizes at class level
                walk(child, p, f, in_table or isinstance(child, ast.ClassDef))
    walk(tree, [], False, False)
    return out


def get(tree, path):
    node = tree
    for field, i in path:
        node = getattr(node, field)
        if i is not None:
            node = node[i]
    return node


def put(tree, path, new):
    node = tree
    for field, i in path[:-1]:
        node = getattr(node, field)
        if i is not None:
            node = node[i]
    field, i = path[-1]
    if i is None:
        setattr(node, field, new)
    elif new is None:
        del getattr(node, field)[i]
    else:
        getattr(node, field)[i] = new


def mutate(tree, kind, path):
    t = copy.deepcopy(tree)
    n = get(t, path)
    if kind == "cmp":
        n.ops = [CMP[type(n.ops[0])]()]
    elif kind == "bin":
        n.op = BIN[type(n.op)]()
    elif kind == "bool":
        n.op = ast.Or() if isinstance(n.op, ast.And) else ast.And()
    elif kind == "unnot":
        put(t, path, n.operand)
    elif kind == "negif":
        n.test = ast.UnaryOp(op=ast.Not(), operand=n.test)
    elif kind == "const+":
        n.value = n.value + 1
    elif kind == "const-":
        n.value = n.value - 1
    elif kind == "boolconst":
        n.value = not n.value
    elif kind == "delstmt":
        put(t, path, None)
    elif kind == "swapargs":
        n.args[0], n.args[1] = n.args[1], n.args[0]
    elif kind == "flipret":
        n.value.value = not n.value.value
    ast.fix_missing_locations(t)
    return t


def run_one(job):
    k, relfile, kind, path, outdir = job
    src = open(os.path.join(REPO, relfile)).read()
    tree = ast.parse(src)
    base = ast.unparse(tree)
    try:
        mut = ast.unparse(mutate(tree, kind, path))
    except Exception as e:
        return {"k": k, "status": "mutation-failed", "why": str(e)}
    if mut == base:
        return {"k": k, "status": "no-change"}
    try:
        compile(mut, relfile, "exec")
    except SyntaxError:
        return {"k": k, "status": "syntax"}
    tmp = tempfile.mkdtemp(prefix="mutscan-")
    try:
        shutil.copytree(os.path.join(REPO, "goodwe"), os.path.join(tmp, "goodwe"))
        shutil.copytree(os.path.join(REPO, "tests"), os.path.join(tmp, "tests"))
        for f in ("pyproject.toml", "setup.cfg"):
            if os.path.exists(os.path.join(REPO, f)):
                shutil.copy(os.path.join(REPO, f), tmp)
        # every file normalised by unparse, so that the diff shows the mutation only
        open(os.path.join(tmp, relfile), "w").write(mut + "\n")
        diff = "".join(difflib.unified_diff((base + "\n").splitlines(True), (mut + "\n").splitlines(True), "a/" + relfile, "b/" + relfile, n=2))
        r = subprocess.run(["/venv/bin/python", "-m", "pytest", "-q", "-x", "-p", "no:cacheprovider"], cwd=tmp, capture_output=True, text=True, timeout=300)
        if r.returncode != 0:
            return {"k": k, "status": "killed-by-tests", "file": relfile, "kind": kind}
        det = {}
        env = dict(os.environ, GOODWE_REPO=tmp, GWSTATIC_EVIDENCE_DIR=os.path.join(tmp, "ev"), GWSTATIC_OUT_DIR=os.path.join(tmp, "out"))
        for i in range(1, 21):
            pid = "C%02d" % i
            c = subprocess.run([os.path.join(VERIF, "check"), pid], capture_output=True, text=True, env=env, timeout=900)
            if c.returncode != 0:
                lines = [ln.strip() for ln in c.stdout.splitlines() if "violated" in ln or "ANALYSIS-ERROR" in ln]
                det[pid] = {"rc": c.returncode, "first": (lines[0][:260] if lines else "")}
        res = {"k": k, "status": "survived-tests", "file": relfile, "kind": kind, "diff": diff, "detected": det}
        json.dump(res, open(os.path.join(outdir, "m%04d.json" % k), "w"), indent=1)
        return res
    except subprocess.TimeoutExpired:
        return {"k": k, "status": "timeout", "file": relfile, "kind": kind}
    finally:
        shutil.rmtree(tmp, ignore_errors=True)


def main():
    ap = argparse.ArgumentParser()
    ap.add_argument("--n", type=int, default=200)
    ap.add_argument("--seed", type=int, default=1)
    ap.add_argument("--files", default="")
    ap.add_argument("--out", default="/tmp/mutscan")
    ap.add_argument("--jobs", type=int, default=6)
    ap.add_argument("--no-tables", action="store_true", help="skip constants of class-level sensor / settings tables")
    ap.add_argument("--only", default="", help="comma separated mutant numbers of a previous run with the same --seed")
    a = ap.parse_args()
    os.makedirs(a.out, exist_ok=True)
    files = [f for f in sorted(os.listdir(os.path.join(REPO, "goodwe"))) if f.endswith(".py")]
    if a.files:
        files = [f for f in files if f in a.files.split(",")]
    allsites = []
    for f in files:
        rel = "goodwe/" + f
        tree = ast.parse(open(os.path.join(REPO, rel)).read())
        for kind, path in sites(tree):
            if a.no_tables and not any(f in ("body",) and isinstance(get(tree, path[:k + 1]), (ast.FunctionDef, ast.AsyncFunctionDef)) for k, (f, _) in enumerate(path)):
                continue
            allsites.append((rel, kind, path))
    rnd = random.Random(a.seed)
    rnd.shuffle(allsites)
    jobs = [(k, rel, kind, path, a.out) for k, (rel, kind, path) in enumerate(allsites[:a.n])]
    if a.only:
        keep = {int(x) for x in a.only.split(",")}
        jobs = [j for j in jobs if j[0] in keep]
    print("%d mutation sites, running %d" % (len(allsites), len(jobs)), flush=True)
    stats = {}
    undet = []
    with ProcessPoolExecutor(max_workers=a.jobs) as ex:
        for r in ex.map(run_one, jobs):
            stats[r["status"]] = stats.get(r["status"], 0) + 1
            if r["status"] == "survived-tests":
                viol = [p for p, d in r["detected"].items() if d["rc"] == 1]
                err = [p for p, d in r["detected"].items() if d["rc"] == 2]
                tag = "DETECTED %s" % ",".join(viol) if viol else ("REFUSED %s" % ",".join(err) if err else "UNDETECTED")
                print("m%04d %-22s %-9s %s" % (r["k"], r["file"], r["kind"], tag), flush=True)
                if not viol:
                    undet.append(r["k"])
    print(json.dumps(stats))
    print("not reported as violation:", undet)


if __name__ == "__main__":
    main()
