#!/usr/bin/env python3
"""tools/seed_prompts.py <suffix> <pid>...  - create scratch worktrees /tmp/seed/<pid>-<suffix> of /repo HEAD and the
sub-agent prompts /tmp/seed/prompt_<pid>-<suffix>.txt (property text only; nothing from /verif)."""
import json, os, subprocess, sys
suffix, pids = sys.argv[1], sys.argv[2:]
props = {json.loads(l)['id']: json.loads(l) for l in open('/verif/properties.jsonl')}
EXTRA = {
 'c': "\n\nThis is a THIRD round. Earlier attempts mostly edited a comparison inside a validator, moved a statement inside one function, or changed one decoder helper. Make the breakage come from somewhere else, for instance: a default argument or constructor (__init__) change; an entry of a constant table / a class-level definition; a method that is newly overridden (or no longer overridden) in a subclass; a changed exception class or except clause; caching / memoisation of something that must be recomputed; a change in a module or function that the property text does not obviously point to but that the behaviour depends on. It must still be a small, innocent-looking change.",
 'd': "\n\nThis is a FOURTH round. Make the change look like a BUG FIX or a ROBUSTNESS / USABILITY IMPROVEMENT - something a reviewer would approve because it seems to make the library safer or friendlier: handling an extra error case, tolerating a malformed or slow answer, adding a fallback or an extra retry, adding a timeout, normalising an argument, supporting a new firmware quirk, better logging, freeing a resource earlier - and yet it breaks the property in some corner the 'improvement' did not think of. Do not repeat the classic moves (deleting a check, flipping a comparison, moving the fragment reset, caching commands, changing an except clause to a sibling class).",
 'e': "\n\nThis is a FIFTH round. This time the change must be made FAR from where a reader would look for this property: in goodwe/const.py, goodwe/model.py, goodwe/exceptions.py, goodwe/__init__.py, the base classes (Inverter in inverter.py, ProtocolCommand / ProtocolResponse / InverterProtocol in protocol.py, Sensor in sensor.py), a default argument, an import, a class attribute, the class hierarchy, __eq__/__hash__/__repr__ - or be a TWO-FILE change each half of which is harmless on its own. Avoid everything earlier rounds did: editing validators' comparisons, moving the fragment / retry resets, caching commands or sensors, changing except clauses, making RequestRejectedException a subclass, first-match lookups, prefilters in the receive callbacks.",
 'b': "\n\nThis is a SECOND round: make the change as different as you can from the most obvious way of breaking the property (for instance, avoid simply deleting a check or a guard; prefer an interaction between two pieces of code, an off-by-one in a boundary, a change of an argument, a type/sign/width confusion, or an ordering change).",
}
T = open('/verif/tools/seed_prompt_template.txt').read()
os.makedirs('/tmp/seed', exist_ok=True)
for pid in pids:
    wt = '/tmp/seed/%s-%s' % (pid, suffix)
    if not os.path.exists(wt):
        subprocess.run(['git', '-C', '/repo', 'worktree', 'add', '-q', '--detach', wt, 'HEAD'], check=True)
    p = props[pid]
    t = T.format(wt=wt, pid=pid, title=p['title'], statement=p['statement'], quant=p['quantifier']['text'], extra=EXTRA.get(suffix, ''))
    open('/tmp/seed/prompt_%s-%s.txt' % (pid, suffix), 'w').write(t)
    print('ready', wt)
