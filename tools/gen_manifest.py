#!/usr/bin/env python3
"""Regenerate /verif/MANIFEST.json from the rule modules that exist (gwstatic/rules/cXX.py).

A property whose rule module is missing is listed under not_applicable with the reason given in
NOT_CLAIMED (kept current by hand)."""
import importlib
import json
import os
import sys

HERE = os.path.dirname(os.path.dirname(os.path.abspath(__file__)))
sys.path.insert(0, HERE)

TECHNIQUE = {
    "C01": "static analysis: path enumeration of validators/callbacks + dominance (facts in linear normal form), index-bounds entailment, CRC parameter extraction",
    "C02": "static analysis: completeness by path refutation against conformance assumptions; layout agreement between validator, trimmer and offset map",
    "C03": "static analysis: symbolic frame construction of the request builders, interval analysis of interpolated fields, AA55 template length agreement, tx-counter interval invariant",
    "C04": "static analysis: typestate over all syntactic paths (timer/future), ranking-function check of the retry recursion, must-call rules",
    "C05": "static analysis: inter-procedural parameter provenance by role, must-reset on request-ending paths",
    "C06": "static analysis: lock typestate over all paths, who-may-call over the resolved call graph, may-suspend effect summaries",
    "C07": "static analysis: must-precede / guarded-join rules on callback paths, linear-form check of the stored remainder and of the Partial raise sites",
    "C08": "static analysis: constant-table extraction vs Modbus reference, handler-path rules, exception class-table disjointness, escape summaries",
    "C09": "static analysis: exception-escape (may-raise) fix-point over the call graph with seeded network primitives; callback escape check; counter update rules",
    "C10": "static analysis: ownership/pairing of the _transport field on all paths, single guarded creation site, must-close on exits, who-may-call",
    "C11": "static analysis: classification of every primitive reachable from the decoders (may-raise subset of ValueError), interval analysis of loop/pop bounds, None-flow through the decoder algebra, per-sensor isolation shape",
    "C12": "static analysis: extracted decoder summaries (bytes, signedness, sentinels, scale) compared with the documented reference; own-register reads; address map agreement",
    "C13": "static analysis: sibling agreement of code/label rows in the extracted tables, linear normal form of bitmap combination, polynomial normal form of derived sensors vs documented formulas",
    "C14": "static analysis: extracted request windows vs consumed byte ranges of every offered sensor over the finite configuration space (exhaustive)",
    "C15": "static analysis: finite-state abstract interpretation of read_device_info / read_runtime_data / sensors() over capability flags and refusal oracles",
    "C16": "static analysis: consumed bytes vs declared size, implementability of single reads, cache-coherence (write of dependency => invalidate), same-decoder resolution",
    "C17": "static analysis: encoder/decoder summary agreement per setting type; exactly-one-write path rule with address provenance; read-modify-write shape",
    "C18": "static analysis: wire-effect classification of every command construction + call-graph reachability from read-only entry points; guard dominance by interval refinement",
    "C19": "static analysis: setter/getter agreement (constants, ids, involutions in linear form), offered=>handled over abstractly executed mode lists, template constants vs recogniser predicates",
    "C20": "static analysis: shared-mutable-state inventory: stores to self in methods of module/class-level instances, fresh per-instance containers, global statement inventory",
}

NOT_CLAIMED = {}

NOTE = ("Trusted base: CPython's ast; gwstatic's program model (class-hierarchy + rapid-type call resolution over the goodwe package only, "
        "no reflection - scanned on every run); tables of raising/suspending stdlib primitives; asyncio's run-to-completion contract for callbacks; "
        "frozen reference tables in gwstatic/reference.py. Decides necessary structural clauses, not the runtime behaviour as a whole; "
        "floors make a vanished anchor an ANALYSIS-ERROR (exit 2), never a silent pass.")


def main():
    checks = []
    na = []
    serves = []
    for i in range(1, 21):
        pid = "C%02d" % i
        path = os.path.join(HERE, "gwstatic", "rules", pid.lower() + ".py")
        if not os.path.exists(path):
            na.append({"property_id": pid, "reason": NOT_CLAIMED.get(pid, "static rules designed (DESIGN.md section 4) but the checker is not implemented yet: not claimed")})
            continue
        mod = importlib.import_module("gwstatic.rules.%s" % pid.lower())
        serves.append(pid)
        checks.append({
            "property_id": pid,
            "quick_cmd": "./check %s --tier quick" % pid,
            "thorough_cmd": "./check %s --tier thorough" % pid,
            "evidence_file": "/verif/evidence/%s.json" % pid,
            "replay_cmd_template": "./check %s --tier quick   # deterministic; violation details in {path}" % pid,
            "engine": "gwstatic",
            "level_claimed": {"category": getattr(mod, "LEVEL", "other"), "text": mod.EXPLANATION, "design_ref": "DESIGN.md section 4, %s" % pid},
            "level_note": NOTE,
            "technique": TECHNIQUE[pid],
        })
    man = {
        "version": 1,
        "setup_cmd": "true",
        "hooks": {
            "guard": "GOODWE_VERIF",
            "enable": "none needed: the checks read /repo/goodwe/*.py as it is (static analysis); no instrumentation is compiled into the repository",
            "baseline_off_cmd": "cd /repo && /venv/bin/python -m pytest -ra -q -p no:cacheprovider --timeout=900",
            "source_commits": [],
            "add_only": True,
        },
        "engines": [{"name": "gwstatic", "path": "/verif/gwstatic", "serves_properties": serves,
                     "kind_free_text": "repository-specific static analyser (pure stdlib Python): AST program model, class-hierarchy/RTA call graph, path enumeration with exception routing, effect summaries (may-raise, may-suspend), symbolic linear facts, interval and table extraction; thorough tier adds a mutation self-test of the rules on scratch copies"}],
        "checks": checks,
        "notes": "All checks are static analysis of /repo's current working tree (GOODWE_REPO overrides the path). Exit 0 = holds / listed known finding, 1 = VIOLATION line, 2 = ANALYSIS-ERROR. Genuine defects found and repaired are recorded in known_findings.json ('fixed'), unrepaired ones under 'known'.",
        "not_applicable": na,
    }
    with open(os.path.join(HERE, "MANIFEST.json"), "w") as f:
        json.dump(man, f, indent=1)
    print("MANIFEST.json: %d checks, %d not claimed" % (len(checks), len(na)))


if __name__ == "__main__":
    main()
