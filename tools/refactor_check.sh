#!/bin/sh
# tools/refactor_check.sh <worktree with patch.diff> <name>: run every registered quick check against a behaviour-preserving
# refactoring (applied to /repo, undone afterwards); every non-zero exit is a false alarm of a check to be analysed.
set -u
SRC="$1"; NAME="$2"
OUT=/verif/seeded/benign/$NAME
mkdir -p "$OUT"; rm -f "$OUT"/alarm_*.txt
cp "$SRC/patch.diff" "$OUT/patch.diff"
( cd "$SRC" && /venv/bin/python -m pytest -q -p no:cacheprovider 2>&1 | tail -1 ) > "$OUT/suite.log"
git -C /repo apply "$OUT/patch.diff" || { echo "patch does not apply"; exit 2; }
BAD=""
for P in $(python3 -c "import json;print(' '.join(c['property_id'] for c in json.load(open('/verif/MANIFEST.json'))['checks']))"); do
  GWSTATIC_EVIDENCE_DIR=/tmp/seed-evidence GWSTATIC_OUT_DIR=/tmp/seed-out ./check "$P" >"/tmp/ref-check-$P.log" 2>&1; RC=$?
  if [ $RC -ne 0 ]; then BAD="$BAD $P(rc=$RC)"; grep -E "violated|ANALYSIS-ERROR" "/tmp/ref-check-$P.log" | head -4 | cut -c1-400 > "$OUT/alarm_$P.txt"; fi
done
git -C /repo checkout -- .
rm -rf /tmp/seed-evidence /tmp/seed-out /tmp/ref-check-*.log
echo "suite: $(cat $OUT/suite.log); alarms:${BAD:- none}"
echo "alarms:${BAD:- none}" > "$OUT/result.txt"
